"""Independent densifier, embedder and snapshotter.

Nothing here calls the methods it is used to judge (to_dense, phase_sync, allclose, check,
copy ...). Only attribute reads: .indices/.blocks/.charge/.phases/.oddpos, index
.chargemap/.dual/.subinfo(.indices/.extents).
"""
import numpy as np

from . import refsym as R


class LayoutError(Exception):
    """A block does not fit the layout it is being embedded in (structural violation)."""


def is_array(x):
    return hasattr(x, "indices") and hasattr(x, "blocks") and hasattr(x, "charge")


def is_vector(x):
    return hasattr(x, "blocks") and not hasattr(x, "indices")


def is_fermionic(x):
    return bool(getattr(x, "fermionic", False))


def phases_of(x):
    return dict(getattr(x, "_phases", None) or {}) if is_fermionic(x) else {}


def labels_of(x):
    """Odd-position labels as list of (label, dual)."""
    if not is_fermionic(x):
        return []
    return [(o.label, bool(o.dual)) for o in (getattr(x, "_oddpos", None) or ())]


def offsets(ix):
    """charge -> (start, size) in sorted-charge order; total size."""
    o = {}
    t = 0
    for c in sorted(ix.chargemap):
        d = ix.chargemap[c]
        o[c] = (t, d)
        t += d
    return o, t


def result_dtype(x):
    bl = list(x.blocks.values())
    if not bl:
        return np.dtype(float)
    return np.result_type(*[np.asarray(b).dtype for b in bl])


def embed(x, ref_indices=None, dtype=None):
    """Dense ndarray of array `x` laid out by `ref_indices` (default: its own indices).
    Pending signs are multiplied in by the harness. Charges missing from x's own
    index tables but present in the reference are simply left zero."""
    if ref_indices is None:
        ref_indices = x.indices
    ref_indices = tuple(ref_indices)
    if len(ref_indices) != len(x.indices):
        raise LayoutError(f"rank {len(x.indices)} != reference rank {len(ref_indices)}")
    offs = [offsets(ix) for ix in ref_indices]
    dt = dtype or result_dtype(x)
    out = np.zeros([t for _, t in offs], dtype=dt)
    ph = phases_of(x)
    for sec, blk in x.blocks.items():
        blk = np.asarray(blk)
        if len(sec) != len(offs):
            raise LayoutError(f"sector {sec} has wrong length")
        sl = []
        for k, c in enumerate(sec):
            if c not in offs[k][0]:
                raise LayoutError(f"sector {sec}: charge {c!r} not in reference index {k}")
            s, d = offs[k][0][c]
            if blk.shape[k] != d:
                raise LayoutError(f"sector {sec}: block shape {blk.shape} axis {k} != reference size {d}")
            sl.append(slice(s, s + d))
        out[tuple(sl)] = blk * ph.get(sec, 1)
    return out


def densify(x):
    return embed(x, x.indices)


def parvecs(sym, indices):
    """Per-axis parity vector (one entry per dense position) for given indices."""
    out = []
    for ix in indices:
        p = []
        for c in sorted(ix.chargemap):
            p += [R.par(sym, c)] * ix.chargemap[c]
        out.append(np.array(p, dtype=int))
    return out


def chargevec(ix):
    """Per dense position charge label list for an index."""
    out = []
    for c in sorted(ix.chargemap):
        out += [c] * ix.chargemap[c]
    return out


def vec_dense(v):
    """Dense concatenation of a block vector by sorted charge."""
    ks = sorted(v.blocks)
    if not ks:
        return np.zeros(0)
    return np.concatenate([np.asarray(v.blocks[k]).reshape(-1) for k in ks])


def embed_vec(v, ref_index):
    o, t = offsets(ref_index)
    bl = list(v.blocks.values())
    dt = np.result_type(*[np.asarray(b).dtype for b in bl]) if bl else float
    out = np.zeros(t, dtype=dt)
    for c, b in v.blocks.items():
        if c not in o:
            raise LayoutError(f"vector charge {c!r} not in reference index")
        s, d = o[c]
        b = np.asarray(b)
        if b.shape != (d,):
            raise LayoutError(f"vector block {c!r} shape {b.shape} != ({d},)")
        out[s : s + d] = b
    return out


# ----------------------------------------------------------------------------------------
# structural signatures / snapshots


def index_sig(ix):
    si = ix.subinfo
    if si is None:
        sub = None
    else:
        sub = (
            tuple(index_sig(s) for s in si.indices),
            tuple((c, tuple(si.extents[c].items())) for c in sorted(si.extents)),
        )
    return (tuple(ix.chargemap.items()), bool(ix.dual), sub)


def index_sig_nosub(ix):
    return (tuple(ix.chargemap.items()), bool(ix.dual))


def _blk_snap(b):
    a = np.asarray(b)
    return (str(a.dtype), a.shape, a.tobytes())


def snapshot(x):
    """Deep, order-preserving observable state of any value the library hands out."""
    if is_array(x):
        return (
            "array",
            type(x).__name__,
            R.symname(x),
            x.charge,
            tuple(index_sig(ix) for ix in x.indices),
            tuple((sec, _blk_snap(b)) for sec, b in x.blocks.items()),
            # an explicitly stored +1 and a missing entry are the same sign state
            tuple(sorted(((k, v) for k, v in phases_of(x).items() if v != 1), key=repr)),
            tuple(labels_of(x)),
        )
    if is_vector(x):
        return ("vector", type(x).__name__, tuple((k, _blk_snap(b)) for k, b in x.blocks.items()))
    if isinstance(x, np.ndarray):
        return ("ndarray", _blk_snap(x))
    if isinstance(x, (tuple, list)):
        return (type(x).__name__, tuple(snapshot(v) for v in x))
    if isinstance(x, dict):
        return ("dict", tuple((k, snapshot(v)) for k, v in x.items()))
    return ("py", repr(x))


def snap_diff(s1, s2):
    """Short description of the first difference between two snapshots (or None)."""
    if s1 == s2:
        return None
    if s1[0] != s2[0]:
        return f"kind {s1[0]} -> {s2[0]}"
    if s1[0] == "array":
        names = ["kind", "class", "symmetry", "charge", "indices", "blocks", "phases", "labels"]
        for n, a, b in zip(names, s1, s2):
            if a != b:
                if n == "blocks":
                    ka = [k for k, _ in a]
                    kb = [k for k, _ in b]
                    if ka != kb:
                        return f"block keys/order {ka} -> {kb}"
                    for (k, va), (_, vb) in zip(a, b):
                        if va != vb:
                            return f"block {k} changed (dtype/shape/bytes {va[:2]} -> {vb[:2]})"
                return f"{n}: {a!r} -> {b!r}"[:400]
    return "differs"


def digest(x):
    import hashlib

    return hashlib.sha1(repr(snapshot(x)).encode()).hexdigest()[:16]


def describe_index(ix):
    d = {"chargemap": {repr(c): s for c, s in ix.chargemap.items()}, "dual": bool(ix.dual), "fused": ix.subinfo is not None}
    if ix.subinfo is not None:
        d["sub"] = [describe_index(s) for s in ix.subinfo.indices]
        d["extents"] = {repr(c): {repr(k): v for k, v in e.items()} for c, e in ix.subinfo.extents.items()}
    return d


def describe(x, values=False):
    """JSON-able description of a value (for samples / witnesses)."""
    if is_array(x):
        d = {
            "cls": type(x).__name__,
            "sym": R.symname(x),
            "charge": repr(x.charge),
            "indices": [describe_index(ix) for ix in x.indices],
            "sectors": [repr(s) for s in x.blocks],
        }
        if is_fermionic(x):
            d["phases"] = {repr(k): v for k, v in phases_of(x).items()}
            d["labels"] = [repr(l) for l in labels_of(x)]
        if values:
            d["blocks"] = {repr(s): np.asarray(b).tolist() for s, b in x.blocks.items()}
            if d["blocks"] and np.iscomplexobj(list(x.blocks.values())[0]):
                d["blocks"] = {k: repr(v) for k, v in d["blocks"].items()}
        return d
    if is_vector(x):
        return {"cls": type(x).__name__, "blocks": {repr(k): np.asarray(b).shape for k, b in x.blocks.items()}}
    if isinstance(x, np.ndarray):
        return {"ndarray": list(x.shape), "dtype": str(x.dtype)}
    if isinstance(x, (tuple, list)):
        return [describe(v) for v in x]
    return repr(x)


def struct_sig(x):
    """Hashable structure signature of an array (no values): used for 'distinct' counting."""
    if is_array(x):
        return (
            type(x).__name__,
            R.symname(x),
            repr(x.charge),
            tuple(index_sig(ix) for ix in x.indices),
            tuple(sorted(map(repr, x.blocks))),
            len(phases_of(x)) > 0,
            tuple(labels_of(x)),
        )
    if is_vector(x):
        return ("vec", tuple(sorted(map(repr, x.blocks))))
    return ("py",)
