"""Random programs over the public API (used by C01, C14, C20).

A step is (name, operand positions in the pool, f, info) where f(*operands) performs ONE
public call (closure over plain arguments only, never over operand objects, so the same step
can be re-issued on twins). info: {"inplace": bool, "dtype": rule, "fresh": [...]}.

dtype rules (C20): "same" result blocks have np.result_type of the operand block dtypes;
"real" the real counterpart; "bool"; "scalar" python/numpy scalar of the same kind;
"scalar-real"; None = not judged.
"""
import random as _random

import numpy as np

from . import gen
from . import refsym as R
from .dense import is_array, is_fermionic, is_vector

MAX_DENSE = 4096


def deep_twin(x, dtype=None):
    """Harness-made deep copy (fresh block memory, same observable state). dtype: cast blocks."""
    if is_vector(x):
        return type(x)({k: np.array(b, dtype=dtype or np.asarray(b).dtype, copy=True) for k, b in x.blocks.items()})
    if not is_array(x):
        return x
    blocks = {s: np.array(b, dtype=dtype or np.asarray(b).dtype, copy=True) for s, b in x.blocks.items()}
    kw = dict(indices=x.indices, charge=x.charge, blocks=blocks)
    if not type(x).static_symmetry:
        kw["symmetry"] = x.symmetry
    if is_fermionic(x):
        kw["phases"] = dict(x.phases)
        kw["oddpos"] = list(x.oddpos)
    return type(x)(**kw)


def small_enough_size(x):
    n = 1
    for ix in x.indices:
        n *= ix.size_total
    return n <= 4 * MAX_DENSE


def small_enough(x):
    if not is_array(x):
        return True
    n = 1
    for ix in x.indices:
        n *= ix.size_total
    return n <= MAX_DENSE and x.ndim <= 5


class Program:
    def __init__(self, ctx, rng, sym=None, fermionic=None, dtype="float64", values="int", kind=None):
        self.ctx = ctx
        self.sr = ctx.sr
        self.rng = rng
        self.sym = sym or gen.pick_sym(rng)
        self.ferm = rng.random() < 0.5 if fermionic is None else fermionic
        self.dtype = dtype
        self.vals = gen.Values(rng, values, dtype)
        _, _, self.kind = gen.pick_class(self.sr, rng, self.sym, self.ferm, kind)
        self.pool = []
        self._never_admit = []
        self.label_counter = 100

    # ---- value creation ---------------------------------------------------------------
    def new_label(self):
        self.label_counter += 1
        return self.label_counter

    def fresh(self, indices=None, ndim=None, charge=None, sparsity=None, nphase=None):
        sr, rng = self.sr, self.rng
        if indices is None:
            nd = rng.randint(1, 3) if ndim is None else ndim
            indices = [gen.rand_index(sr, rng, self.sym, maxd=2) for _ in range(nd)]
        return gen.make_array(sr, rng, self.sym, indices, charge=charge, fermionic=self.ferm, kind=self.kind, values=self.vals, label=self.new_label(), sparsity=sparsity, nphase=nphase)

    def vector_for(self, ix, p=0.8):
        bl = {c: self.vals((d,)) for c, d in ix.chargemap.items() if self.rng.random() < p}
        if not bl:
            c = self.rng.choice(list(ix.chargemap))
            bl[c] = self.vals((ix.chargemap[c],))
        return self.sr.BlockVector(bl)

    def construct(self):
        """A new value through one of the constructors. -> (name, thunk)"""
        sr, rng = self.sr, self.rng
        nd = rng.randint(1, 3)
        idx = [gen.rand_index(sr, rng, self.sym, maxd=2) for _ in range(nd)]
        charge = gen.pick_charge(rng, self.sym, idx)
        cls, extra, _ = gen.pick_class(sr, rng, self.sym, self.ferm, self.kind)
        okw = {"oddpos": self.new_label()} if (self.ferm and R.par(self.sym, charge)) else {}
        how = rng.choice(["plain", "random", "from_fill_fn", "from_blocks", "from_dense"])
        dt = self.dtype
        vals = self.vals
        if how == "plain":
            return how, lambda: gen.make_array(sr, rng, self.sym, idx, charge=charge, fermionic=self.ferm, kind=self.kind, values=vals, label=okw.get("oddpos"))
        if how == "random":
            seed = rng.randint(0, 10**6)
            ropts = {}
            if rng.random() < 0.4:
                ropts = {"dist": rng.choice(["normal", "uniform"]), "scale": rng.choice([1.0, 2.0, 0.5]), "loc": rng.choice([0.0, 1.0, -2.0])}
            return how, lambda: cls.random(idx, charge=charge, seed=seed, dtype=dt, **ropts, **extra, **okw)
        if how == "from_fill_fn":
            return how, lambda: cls.from_fill_fn(lambda shape: vals(shape), idx, charge, **extra, **okw)
        secs = gen.all_sectors(self.sym, idx, charge)
        if how == "from_blocks" and secs:
            blocks = {s: vals(tuple(ix.chargemap[c] for ix, c in zip(idx, s))) for s in gen.thin(rng, secs, 0.3)}
            duals = [ix.dual for ix in idx]
            sarg = extra if extra else {"symmetry": self.sym}
            return how, lambda: cls.from_blocks(blocks, duals, charge=charge, **sarg, **okw)
        from .dense import chargevec

        maps = [chargevec(ix) for ix in idx]
        for m in maps:
            rng.shuffle(m)
        D = vals(tuple(len(m) for m in maps))
        duals = [ix.dual for ix in idx]
        sarg = extra if extra else {}
        return "from_dense", lambda: cls.from_dense(D, maps, duals, charge=charge, invalid_sectors="ignore", **sarg, **okw)

    def failed(self, operands, info):
        """A step raised. The state of an operand after a FAILED in-place call is not specified
        by any property (nothing was returned, nothing promised): such operands leave the pool."""
        if info.get("inplace"):
            self.pool = [v for v in self.pool if not any(v is o_ for o_ in operands)]

    def axform(self, seq, nd=None):
        """The same axis sequence in one of the forms numpy users pass: tuple (most often),
        list, numpy array, tuple of numpy integers, negative positions."""
        rng = self.rng
        seq = tuple(int(v) for v in seq)
        r = rng.random()
        if r < 0.6:
            return seq
        if r < 0.7:
            return list(seq)
        if r < 0.8:
            return tuple(np.int64(v) for v in seq)
        if r < 0.9 and nd:
            return tuple(v - nd if rng.random() < 0.5 else v for v in seq)
        return np.array(seq, dtype=np.int64) if seq else seq

    # ---- step selection -----------------------------------------------------------------
    def pick(self):
        """-> (name, [operands], f, info) or None. Operands are VALUES (from the pool or fresh)."""
        rng, sr = self.rng, self.sr
        arrays = [v for v in self.pool if is_array(v) and v.blocks and v.ndim <= 8 and small_enough_size(v)]
        if not arrays or rng.random() < 0.08:
            name, th = self.construct()
            return f"construct:{name}", [], th, {"inplace": False, "dtype": "same-as-program", "construct": True}
        x = rng.choice(arrays)
        nd = x.ndim
        ferm = is_fermionic(x)
        sym = self.sym
        names = ["scalar_mul", "scalar_div", "neg", "norm", "sum", "copy", "to_dense", "add_self", "sync_charges", "abs", "allclose_self", "imul", "fill_missing", "isfinite"]
        if nd >= 1:
            names += ["transpose", "transpose_none", "conj", "dagger", "tensordot_conj", "tensordot_fresh", "add_fresh", "sub_same", "mul_fresh", "multiply_diagonal", "expand_dims", "expand_dims_charge", "align_axes", "einsum_perm", "max", "min", "transpose_inplace", "conj_inplace", "T", "H"]
        if nd >= 2:
            names += ["fuse", "fuse", "fuse_concat", "fuse_inplace", "reshape", "reshape_flat", "fuse_unfuse", "tensordot_pair", "fuse_empty_group"]
        if any(ix.subinfo is not None for ix in x.indices):
            names += ["unfuse", "unfuse_all", "unfuse_inplace"] * 2
        if any(ix.size_total == 1 and next(iter(ix.chargemap)) == R.identity(sym) for ix in x.indices):
            names += ["squeeze", "squeeze"]
        if nd == 2:
            names += ["qr", "qr_stab", "svd", "svd_truncated", "svd_truncated", "matmul_fresh"]
            a, b = x.indices
            if bool(a.dual) != bool(b.dual) and dict(a.chargemap) == dict(b.chargemap):
                names += ["trace", "einsum_trace"]
                if x.charge == R.identity(sym):
                    names += ["eigh", "hermitian_lazy"]
                    try:
                        from .dense import embed as _embed

                        dx_ = _embed(x)
                        if dx_.shape[0] == dx_.shape[1] and np.array_equal(dx_, dx_.conj().T):
                            names += ["eigh_direct"] * 3
                    except Exception:
                        pass
                    if x.blocks and all(np.asarray(b_).shape[0] == np.asarray(b_).shape[1] for b_ in x.blocks.values()):
                        names += ["solve"]
        if len(x.blocks) == 1 and all(ix.size_total == 1 for ix in x.indices):
            # one stored element (rank 0, or every axis of size one)
            names += ["item", "item_complex", "item_bool"] if nd == 0 else ["item", "item_complex"]
            names += ["sub_scaled_self", "tensordot_rank0_second"]
            el = np.asarray(next(iter(x.blocks.values()))).reshape(-1)[0]
            if np.isfinite(el) and 1e-100 < abs(el) < 1e100:
                names += ["div_scaled_self", "div_scaled_self"]
        names += ["tensordot_scalar", "copy_copy", "deepcopy", "pickle_roundtrip", "display"]
        if nd == 0:
            names += ["display", "display"]
        if nd >= 1 and all(ix.subinfo is None for ix in x.indices):
            names += ["add_ragged"]
        if nd in (1, 2) and sym in ("U1", "U1U1", "Z4") and x.indices[0].subinfo is None and not ferm:
            names += ["solve_charged"]
        if nd >= 1:
            names += ["align_axes_inplace"]
        if ferm:
            names += ["phase_flip", "phase_transpose", "phase_global", "phase_sync", "phase_sync_inplace", "phase_flip_inplace", "phase_sector", "conj_opts", "dagger_pd"]
        name = rng.choice(names)
        I = lambda **k: dict({"inplace": False, "dtype": "same"}, **k)
        if name == "scalar_mul":
            s = rng.choice([2.0, -1.5, 3])
            return name, [x], (lambda a: a * s), I()
        if name == "scalar_div":
            s = rng.choice([2.0, 4])
            return name, [x], (lambda a: a / s), I()
        if name == "neg":
            return name, [x], (lambda a: -a), I()
        if name == "norm":
            return name, [x], (lambda a: a.norm()), I(dtype="scalar-real")
        if name in ("sum", "max", "min"):
            if name != "sum" and np.dtype(self.dtype).kind == "c":
                name = "sum"
            return name, [x], (lambda a: getattr(a, name)()), I(dtype="scalar")
        if name == "copy":
            return name, [x], (lambda a: a.copy()), I()
        if name == "to_dense":
            return name, [x], (lambda a: a.to_dense()), I(dtype="ndarray")
        if name == "add_self":
            return name, [x, x], (lambda a, b: a + b), I()
        if name == "sync_charges":
            return name, [x], (lambda a: a.sync_charges()), I()
        if name == "abs":
            return name, [x], (lambda a: a.abs()), I(dtype="real")
        if name == "isfinite":
            return name, [x], (lambda a: a.isfinite()), I(dtype="bool")
        if name == "allclose_self":
            return name, [x, x], (lambda a, b: a.allclose(b)), I(dtype=None)
        if name == "imul":
            s = rng.choice([2.0, -1.0])

            def f(a):
                a *= s
                return a

            return name, [x], f, I(inplace=True)
        if name == "fill_missing":

            def f(a):
                a.fill_missing_blocks()
                return a

            return name, [x], f, I(inplace=True)
        if name == "display":
            # read-only Python protocols: repr / str / format, and the read-only attributes a
            # debugger or a notebook shows
            how = rng.choice(["repr", "repr", "str", "format", "attributes", "inspect"])
            if how == "inspect":
                # the library's own read-only inspection methods (their verdicts are not judged
                # here - only that looking does not touch)
                def f(a):
                    for n_, args_ in (("check", ()), ("get_sparsity", ()), ("get_params", ()), ("sizes", None), ("check_chargemaps_aligned", ()), ("is_valid_sector", (next(iter(a.blocks), ()),))):
                        try:
                            v_ = getattr(a, n_)
                            if args_ is not None:
                                v_(*args_)
                        except Exception:
                            pass
                    for ix_ in getattr(a, "indices", ()):
                        try:
                            ix_.check(), ix_.sizes, ix_.num_charges, repr(ix_), ix_.matches(ix_.conj())
                        except Exception:
                            pass
                    return 0

                return "display:inspect", [x], f, I(dtype=None)
            if how == "attributes":
                def f(a):
                    return tuple(repr(getattr(a, n_, None)) for n_ in ("shape", "ndim", "size", "dtype", "backend", "num_blocks", "sectors", "charge", "signature", "duals", "is_fermionic")) and 0

                return "display:attributes", [x], f, I(dtype=None)
            fn_ = {"repr": repr, "str": str, "format": (lambda a: "{}".format(a))}[how]
            return "display:" + how, [x], (lambda a: len(fn_(a)) * 0), I(dtype=None)
        if name == "item":
            return name, [x], (lambda a: a.item()), I(dtype="scalar")
        if name == "item_complex":
            return name, [x], (lambda a: complex(a)), I(dtype=None)
        if name == "item_bool":
            return name, [x], (lambda a: bool(a)), I(dtype=None)
        if name in ("transpose", "transpose_inplace"):
            perm = self.axform(rng.sample(range(nd), nd), nd)
            if name == "transpose" and ferm and rng.random() < 0.15:
                return "transpose_nophase", [x], (lambda a: a.transpose(perm, phase=False)), I()
            if name == "transpose":
                return name, [x], (lambda a: a.transpose(perm)), I()
            return name, [x], (lambda a: a.transpose(perm, inplace=True)), I(inplace=True)
        if name == "transpose_none":
            return name, [x], (lambda a: a.transpose()), I()
        if name == "T":
            return name, [x], (lambda a: a.T if not is_fermionic(a) else a.transpose()), I()
        if name == "H":
            return name, [x], (lambda a: a.H), I()
        if name == "conj":
            return name, [x], (lambda a: a.conj()), I()
        if name == "conj_inplace":
            return name, [x], (lambda a: a.conj(inplace=True)), I(inplace=True)
        if name == "conj_opts":
            pp, pd = rng.random() < 0.5, rng.random() < 0.5
            return name, [x], (lambda a: a.conj(phase_permutation=pp, phase_dual=pd)), I()
        if name == "dagger":
            return name, [x], (lambda a: a.dagger()), I()
        if name == "dagger_pd":
            return name, [x], (lambda a: a.dagger(phase_dual=True)), I()
        if name == "tensordot_conj":
            k = rng.randint(0, nd)
            ax = rng.sample(range(nd), k)
            mode = rng.choice(["fused", "blockwise", "auto"])
            pres = rng.random() < 0.7
            return name, [x], (lambda a: sr.tensordot(a.conj(), a, axes=(ax, ax), mode=mode, preserve_array=pres)), I(dtype="same-or-scalar")
        if name in ("tensordot_fresh", "matmul_fresh"):
            k = 1 if name == "matmul_fresh" else rng.randint(0, nd)
            axa = [nd - 1] if name == "matmul_fresh" else rng.sample(range(nd), k)
            ib = [gen.conj_index(sr, x.indices[i]) if x.indices[i].subinfo is None else x.indices[i].conj() for i in axa]
            nfree = rng.randint(0, 1) if name == "matmul_fresh" else rng.randint(0, 2)
            ib += [gen.rand_index(sr, rng, sym, maxd=2) for _ in range(nfree)]
            y = self.fresh(indices=ib)
            if name == "matmul_fresh":
                return name, [x, y], (lambda a, b: a @ b), I(dtype="same-or-scalar")
            mode = rng.choice(["fused", "blockwise", "auto", None])
            axb = list(range(k))
            if rng.random() < 0.5:
                return name, [x, y], (lambda a, b: sr.tensordot(a, b, axes=(axa, axb), mode=mode, preserve_array=True)), I()
            return name + "_swapped", [y, x], (lambda b, a: sr.tensordot(b, a, axes=(axb, axa), mode=mode, preserve_array=True)), I()
        if name == "tensordot_pair":
            # two pool values that happen to be contractible over one leg, else x with conj(x)
            for y in rng.sample(arrays, len(arrays)):
                if y is x:
                    continue
                for i, ix in enumerate(x.indices):
                    for j, jx in enumerate(y.indices):
                        if ix.subinfo is None and jx.subinfo is None and dict(ix.chargemap) == dict(jx.chargemap) and bool(ix.dual) != bool(jx.dual):
                            mode = rng.choice(["fused", "blockwise"])
                            return name, [x, y], (lambda a, b, i=i, j=j: sr.tensordot(a, b, axes=([i], [j]), mode=mode, preserve_array=True)), I()
            return "tensordot_conj", [x], (lambda a: sr.tensordot(a, a.conj(), axes=([0], [0]), preserve_array=True)), I()
        if name in ("add_fresh", "mul_fresh"):
            y = self.fresh(indices=list(x.indices), charge=x.charge)
            if ferm and x.oddpos:
                y.modify(oddpos=x.oddpos)
            if name == "add_fresh":
                return name, [x, y], (lambda a, b: a + b), I()
            return name, [x, y], (lambda a, b: a * b), I()
        if name == "sub_same":
            return name, [x, x], (lambda a, b: a - b), I()
        if name == "multiply_diagonal":
            ax = rng.randrange(nd)
            v = self.vector_for(x.indices[ax])
            return name, [x, v], (lambda a, w: a.multiply_diagonal(w, ax)), I()
        if name == "expand_dims":
            ax = rng.randint(0, nd)
            return name, [x], (lambda a: a.expand_dims(ax)), I()
        if name == "expand_dims_charge":
            ax = rng.randint(0, nd)
            c = rng.choice(gen.POOL[sym])
            dl = rng.random() < 0.5
            return name, [x], (lambda a: a.expand_dims(ax, c=c, dual=dl)), I(expand_charge=c)
        if name == "div_scaled_self":
            # array / array is defined when every axis has size one
            sc = rng.choice([2.0, -0.5, 4.0])
            return name, [x], (lambda a: a / (a * sc)), I()
        if name == "sub_scaled_self":
            sc = rng.choice([2.0, -0.5, 4.0])
            return name, [x], (lambda a: a - (a * sc)), I()
        if name == "add_ragged":
            # a partner whose legs list other charges than x's (agreeing on the shared ones)
            k_ = rng.randrange(nd)
            cm = dict(x.indices[k_].chargemap)
            free_ = [c for c in gen.POOL[sym] if c not in cm]
            if len(cm) >= 2 and rng.random() < 0.6:
                del cm[rng.choice(sorted(cm))]
            if free_ and (rng.random() < 0.6 or cm == dict(x.indices[k_].chargemap)):
                cm[rng.choice(free_)] = rng.randint(1, 2)
            iy = list(x.indices)
            iy[k_] = sr.BlockIndex(dict(sorted(cm.items())), dual=x.indices[k_].dual)
            y = self.fresh(indices=iy, charge=x.charge)
            if ferm:
                y.modify(oddpos=x.oddpos)
            if rng.random() < 0.5:
                return name, [x, y], (lambda a, b: a + b), I()
            return name, [y, x], (lambda a, b: a + b), I()
        if name == "copy_copy":
            import copy as _copy

            # (a shallow copy shares its blocks AND its sign table with the original by the
            # definition of copy.copy: it is audited like any result but never becomes an
            # operand - an in-place call on either would rewrite the other)
            def shallow(a):
                r = _copy.copy(a)
                self._never_admit.append(r)
                return r

            return name, [x], shallow, I(shares_by_design=True)
        if name == "deepcopy":
            import copy as _copy

            return name, [x], (lambda a: _copy.deepcopy(a)), I()
        if name == "pickle_roundtrip":
            import pickle as _pickle

            return name, [x], (lambda a: _pickle.loads(_pickle.dumps(a))), I()
        if name == "tensordot_scalar":
            sc = rng.choice([2.0, -0.5, 3])
            return name, [x], (lambda a: sr.tensordot(a, sc, axes=0)), I()
        if name == "tensordot_rank0_second":
            # a rank-0 ARRAY as second operand of an outer product
            y = self.fresh(ndim=rng.randint(1, 2))
            z0 = x if nd == 0 else None
            if z0 is None:
                return "tensordot_scalar", [x], (lambda a: sr.tensordot(a, 2.0, axes=0)), I()
            return name, [y, z0], (lambda a, b: sr.tensordot(a, b, axes=rng.choice([0, ((), ())]), preserve_array=True)), I()
        if name == "align_axes_inplace":
            ax = rng.sample(range(nd), rng.randint(1, nd))

            def f(a):
                from symmray.abelian_core import drop_misaligned_sectors

                b = a.conj()
                drop_misaligned_sectors(a, b, tuple(ax), tuple(ax), inplace=True)
                return a

            return name, [x], f, I(inplace=True)
        if name == "align_axes":
            ax = rng.sample(range(nd), rng.randint(1, nd))
            return name, [x], (lambda a: a.align_axes(a.conj(), (tuple(ax), tuple(ax)))), I()
        if name == "einsum_perm":
            letters = "abcdefghijklmnop"[:nd]
            perm = rng.sample(range(nd), nd)
            eq = letters + "->" + "".join(letters[p] for p in perm)
            return name, [x], (lambda a: a.einsum(eq)), I()
        if name in ("fuse", "fuse_concat", "fuse_inplace", "fuse_unfuse"):
            from checks.c05 import groupings

            gs = rng.choice(groupings(rng, nd, 4))
            if rng.random() < 0.3:
                gs = tuple(self.axform(g, nd) for g in gs)
            if name == "fuse":
                return name, [x], (lambda a: a.fuse(*gs)), I()
            if name == "fuse_concat":
                if ferm:
                    return "fuse", [x], (lambda a: a.fuse(*gs)), I()
                return name, [x], (lambda a: a.fuse(*gs, mode="concat")), I()
            if name == "fuse_inplace":
                return name, [x], (lambda a: a.fuse(*gs, inplace=True)), I(inplace=True)
            return name, [x], (lambda a: a.fuse(*gs).unfuse_all()), I()
        if name == "fuse_empty_group":
            from checks.c05 import groupings

            gs = list(rng.choice(groupings(rng, nd, 4)))
            gs.insert(rng.randint(0, len(gs)), ())
            ee = rng.random() < 0.7
            return name, [x], (lambda a: a.fuse(*gs, expand_empty=ee)), I()
        if name == "solve_charged":
            # an operator of non-zero total charge acting on x's first index: column table =
            # row table shifted by the charge (every row charge meets one column charge)
            r_ = x.indices[0]
            q = rng.choice([c for c in gen.POOL[sym] if c != R.identity(sym)])
            dual_c = rng.random() < 0.5
            cm = {}
            for c, d in r_.chargemap.items():
                t = R.comb(sym, [q, R.neg(sym, R.signed(sym, c, r_.dual))])
                cm[R.neg(sym, t) if dual_c else t] = d
            col = sr.BlockIndex(dict(sorted(cm.items())), dual=dual_c)
            op = gen.make_array(sr, rng, sym, [r_, col], charge=q, fermionic=False, kind=self.kind, values=self.vals, sparsity=0.0, exotic=False)
            for s_, b_ in list(op.blocks.items()):
                op.blocks[s_] = b_ + (5.0 * np.eye(np.asarray(b_).shape[0])).astype(np.asarray(b_).dtype)
            return name, [op, x], (lambda a, b: sr.linalg.solve(a, b)), I()
        if name == "solve":
            # make the blocks well conditioned through public arithmetic: a + 5 * (block identity)
            eye = type(x)(**dict(indices=x.indices, charge=x.charge, blocks={s_: (5.0 * np.eye(np.asarray(b_).shape[0])).astype(np.asarray(b_).dtype) for s_, b_ in x.blocks.items()}, **({} if type(x).static_symmetry else {"symmetry": x.symmetry})))
            rhs = self.fresh(indices=[x.indices[0]], sparsity=0.0)

            def f(a, e, b):
                return sr.linalg.solve(a + e, b)

            return name, [x, eye, rhs], f, I()
        if name in ("unfuse", "unfuse_inplace"):
            ax = rng.choice([i for i, ix in enumerate(x.indices) if ix.subinfo is not None])
            if name == "unfuse":
                return name, [x], (lambda a: a.unfuse(ax)), I()
            return name, [x], (lambda a: a.unfuse(ax, inplace=True)), I(inplace=True)
        if name == "unfuse_all":
            return name, [x], (lambda a: a.unfuse_all()), I()
        if name in ("reshape", "reshape_flat"):
            from checks.c07 import reachable_targets

            shape = tuple(ix.size_total for ix in x.indices)
            if name == "reshape_flat":
                return name, [x], (lambda a: a.reshape((-1,))), I()
            tg = [t for t in sorted(reachable_targets(shape)) if t != ()]
            t = rng.choice(tg)
            return name, [x], (lambda a: a.reshape(t)), I()
        if name == "squeeze":
            ones = [i for i, ix in enumerate(x.indices) if ix.size_total == 1 and next(iter(ix.chargemap)) == R.identity(sym)]
            ax = rng.choice(ones)
            return name, [x], (lambda a: a.squeeze(ax)), I()
        if name in ("qr", "qr_stab"):
            st = name == "qr_stab"
            return name, [x], (lambda a: sr.linalg.qr(a, stabilized=st)), I()
        if name == "svd":
            return name, [x], (lambda a: sr.linalg.svd(a)), I(dtype="svd")
        if name == "svd_truncated":
            kw = dict(cutoff=rng.choice([-1.0, 1e-3, 0.3, 5.0]), cutoff_mode=rng.randint(1, 6), max_bond=rng.choice([-1, 1, 2, 3]), absorb=rng.choice([None, -1, 0, 1, "left", "both", "right"]))
            return name, [x], (lambda a: sr.linalg.svd_truncated(a, **kw)), I(dtype="svd", kw=kw)
        if name == "hermitian_lazy":
            # a Hermitian matrix that (when fermionic) still carries pending signs
            if ferm:
                return name, [x], (lambda a: (a + a.dagger()).phase_transpose((1, 0))), I()
            return name, [x], (lambda a: a + a.dagger()), I()
        if name == "eigh_direct":
            return name, [x], (lambda a: sr.linalg.eigh(a)), I(dtype="svd")
        if name == "eigh":

            def f(a):
                return sr.linalg.eigh(a + a.dagger())

            return name, [x], f, I(dtype="svd")
        if name == "trace":
            return name, [x], (lambda a: a.trace()), I(dtype="scalar")
        if name == "einsum_trace":
            return name, [x], (lambda a: a.einsum("aa->")), I(dtype="scalar")
        if name in ("phase_flip", "phase_flip_inplace"):
            if nd == 0:
                return "phase_global", [x], (lambda a: a.phase_global()), I()
            axs = rng.sample(range(nd), rng.randint(1, nd))
            if name == "phase_flip":
                return name, [x], (lambda a: a.phase_flip(*axs)), I()
            return name, [x], (lambda a: a.phase_flip(*axs, inplace=True)), I(inplace=True)
        if name == "phase_transpose":
            perm = self.axform(rng.sample(range(nd), nd), nd) if nd else ()
            return name, [x], (lambda a: a.phase_transpose(perm)), I()
        if name == "phase_global":
            return name, [x], (lambda a: a.phase_global()), I()
        if name == "phase_sync":
            return name, [x], (lambda a: a.phase_sync()), I()
        if name == "phase_sync_inplace":
            return name, [x], (lambda a: a.phase_sync(inplace=True)), I(inplace=True)
        if name == "phase_sector":
            sec = rng.choice(list(x.blocks))
            return name, [x], (lambda a: a.phase_sector(sec)), I()
        raise KeyError(name)

    def admit(self, res):
        """Add array-valued results to the pool (bounded)."""
        vals = res if isinstance(res, (tuple, list)) else [res]
        for v in vals:
            if any(v is r for r in self._never_admit):
                continue
            if any(np.asarray(b).dtype.kind == "b" for b in getattr(v, "blocks", {}).values()):
                continue  # boolean results (isfinite) are not operands for arithmetic
            if (is_array(v) and small_enough(v)) or is_vector(v):
                self.pool.append(v)
        if len(self.pool) > 8:
            del self.pool[: len(self.pool) - 8]
