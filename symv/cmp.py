"""Comparison helpers shared by the checks."""
import numpy as np

from . import refsym as R
from .dense import LayoutError, embed, is_array


def close(got, exp, exact, scale=1.0, rtol=1e-10):
    got = np.asarray(got)
    exp = np.asarray(exp)
    if got.shape != exp.shape:
        return False
    if exact:
        return bool(np.array_equal(got, exp))
    tol = rtol * max(1.0, float(scale))
    return bool(np.all(np.abs(got - exp) <= tol))


def maxdiff(got, exp):
    got = np.asarray(got)
    exp = np.asarray(exp)
    if got.shape != exp.shape:
        return f"shape {got.shape} vs {exp.shape}"
    if got.size == 0:
        return 0.0
    return float(np.max(np.abs(got - exp)))


def free_index_mismatch(res, ref_indices):
    """A result's indices must be the reference free indices, possibly with charges
    dropped: same direction, same size for every charge that is kept."""
    if len(res.indices) != len(ref_indices):
        return f"rank {len(res.indices)} != {len(ref_indices)}"
    for k, (ix, rx) in enumerate(zip(res.indices, ref_indices)):
        if bool(ix.dual) != bool(rx.dual):
            return f"axis {k}: direction {ix.dual} != {rx.dual}"
        for c, d in ix.chargemap.items():
            if rx.chargemap.get(c) != d:
                return f"axis {k}: charge {c!r} size {d} != reference {rx.chargemap.get(c)}"
    return None


def compare_array(res, ref_indices, expect, exact, scale=1.0, rtol=1e-10):
    """-> None or message. `expect` is the dense reference in the layout of ref_indices."""
    if not is_array(res):
        return f"result is {type(res).__name__}, not an array"
    m = free_index_mismatch(res, ref_indices)
    if m:
        return "index structure: " + m
    try:
        got = embed(res, ref_indices)
    except LayoutError as e:
        return f"layout: {e}"
    if not close(got, expect, exact, scale, rtol):
        return f"values differ from the reference, max |diff| = {maxdiff(got, expect)}"
    return None


def is_empty(x):
    return is_array(x) and len(x.blocks) == 0


def has_missing(x):
    """At least one valid sector of x has no stored block."""
    sym = R.symname(x)
    nvalid = len(R.valid_sectors(sym, [list(ix.chargemap) for ix in x.indices], [ix.dual for ix in x.indices], x.charge))
    return len(x.blocks) < nvalid
