"""pytest plugin: run the repository's own test suite with the internal hooks H1/H2 attached
(cached fuse plan == fresh plan; lru_cache'd helpers == uncached). Used by C15.

    SYMV_PLUGIN_OUT=<prefix> pytest -p symv.pytest_plugin ...

Each (xdist) process writes <prefix>.<pid>.json at session end."""
import json
import os


class MiniCtx:
    def __init__(self):
        self.tables = {}
        self.violations = []
        from . import load

        self.sr = load.load()

    def count(self, table, key, n=1):
        t = self.tables.setdefault(table, {})
        t[key] = t.get(key, 0) + n

    def violation(self, mech, msg, witness=None):
        if len(self.violations) < 20:
            self.violations.append({"mech": mech, "msg": str(msg)[:1500], "witness": witness})


_state = {}


def pytest_configure(config):
    from .hooks import Hooks

    ctx = MiniCtx()
    hooks = Hooks(ctx)
    hooks.install_plan_hook()
    hooks.install_lru_hooks()
    _state["ctx"] = ctx
    _state["hooks"] = hooks


def pytest_sessionfinish(session, exitstatus):
    ctx = _state.get("ctx")
    out = os.environ.get("SYMV_PLUGIN_OUT")
    if ctx is None or not out:
        return
    with open(f"{out}.{os.getpid()}.json", "w") as f:
        json.dump({"tables": ctx.tables, "violations": ctx.violations, "exitstatus": int(exitstatus)}, f, default=repr)
