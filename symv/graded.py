"""GradedDense: an independent dense Z2-graded (Grassmann) tensor model.

A fermionic array is  X = sum_i  T[i1..in] * L1 L2 .. Lm * e_{i1} e_{i2} .. e_{in}
where e_i is odd iff the charge at dense position i has odd parity, L* are the odd
'label' factors (each odd, written to the LEFT of the indices) and a dual ("bra") index
is e^dagger. All signs below come from (a) commuting odd factors and (b) the rule
"bra-ket pair evaluates to +delta, ket-bra pair to (-1)^p delta".

The model only uses numpy and RefSym parities; it never calls the library.
"""
import numpy as np

from . import refsym as R
from .dense import embed, labels_of, parvecs


class GD:
    def __init__(self, data, pars, duals, labels=()):
        self.data = np.asarray(data)
        self.pars = [np.asarray(p) for p in pars]
        self.duals = [bool(d) for d in duals]
        self.labels = list(labels)  # [(label, dual)]
        assert self.data.ndim == len(self.pars) == len(self.duals)


def from_array(x, ref_indices=None):
    sym = R.symname(x)
    idx = x.indices if ref_indices is None else ref_indices
    return GD(embed(x, idx), parvecs(sym, idx), [ix.dual for ix in idx], labels_of(x))


def _axis_sign(par, axis, ndim):
    sh = [1] * ndim
    sh[axis] = -1
    return (1 - 2 * par).reshape(sh)


def gtranspose(data, pars, perm):
    """Graded transpose: element sign = parity of the permutation restricted to odd axes."""
    n = len(perm)
    out = data
    pos = {ax: k for k, ax in enumerate(perm)}
    for i in range(n):
        for j in range(i + 1, n):
            if pos[i] > pos[j]:
                shi = [1] * n
                shi[i] = -1
                shj = [1] * n
                shj[j] = -1
                out = out * (1 - 2 * (pars[i].reshape(shi) * pars[j].reshape(shj)))
    return out.transpose(perm), [pars[p] for p in perm]


def index_parity(g):
    """Parity of the sum of index parities over the non-zero elements (must be unique for
    a parity-homogeneous tensor). None if the tensor is identically zero."""
    nz = np.argwhere(g.data != 0)
    if len(nz) == 0:
        return None
    ps = {int(sum(g.pars[k][i[k]] for k in range(g.data.ndim)) % 2) for i in nz}
    if len(ps) != 1:
        raise AssertionError(f"tensor is not parity homogeneous: {ps}")
    return ps.pop()


def contract_data(a, b, axes_a, axes_b):
    """Index part of the contraction of a (left) with b (right)."""
    na, nb = a.data.ndim, b.data.ndim
    axes_a = [x % na for x in axes_a]
    axes_b = [x % nb for x in axes_b]
    left = [i for i in range(na) if i not in axes_a]
    right = [i for i in range(nb) if i not in axes_b]
    # a -> (.., x, y, z) ; b -> (z, y, x, ..): innermost pair closes first
    A, pa = gtranspose(a.data, a.pars, (*left, *axes_a))
    B, pb = gtranspose(b.data, b.pars, (*reversed(axes_b), *right))
    ncon = len(axes_a)
    for k in range(ncon):
        axa = len(left) + k
        if not a.duals[axes_a[k]]:
            # ket (on a) then bra (on b): extra (-1)^p
            A = A * _axis_sign(pa[axa], axa, na)
    C = np.tensordot(A, B, axes=(list(range(len(left), na)), list(range(ncon - 1, -1, -1))))
    pc = pa[: len(left)] + pb[ncon:]
    duals = [a.duals[i] for i in left] + [b.duals[i] for i in right]
    return C, pc, duals, left, right


def canon_labels(labels):
    """Canonical form of a string of odd label factors: annihilate every conjugate pair
    (same label, opposite dualness; brought adjacent by anticommuting, ket-bra => -1),
    then sort the remainder by a fixed key. -> (sign, canonical list)."""
    sign = 1
    cur = list(labels)
    while True:
        found = None
        for i in range(len(cur)):
            for j in range(i + 1, len(cur)):
                if cur[i][0] == cur[j][0] and cur[i][1] != cur[j][1]:
                    found = (i, j)
                    break
            if found:
                break
        if not found:
            break
        i, j = found
        if (j - i - 1) % 2:
            sign = -sign
        if (not cur[i][1]) and cur[j][1]:
            sign = -sign
        cur.pop(j)
        cur.pop(i)
    order = sorted(range(len(cur)), key=lambda k: (cur[k][1], cur[k][0]))
    inv = sum(1 for x in range(len(order)) for y in range(x + 1, len(order)) if order[x] > order[y])
    if inv % 2:
        sign = -sign
    return sign, [cur[k] for k in order]


def canon_value(x, ref_indices=None):
    """(dense value in canonical label form, canonical labels) of a library array."""
    s, lab = canon_labels(labels_of(x))
    return embed(x, ref_indices) * s, lab


def contract(a, b, axes_a, axes_b, a_parity_fallback=0):
    """Full graded contraction in canonical label form
    -> (dense result, canonical labels, pars, duals, left, right)."""
    C, pc, duals, left, right = contract_data(a, b, axes_a, axes_b)
    ap = index_parity(a)
    if ap is None:
        ap = a_parity_fallback
    # [la][a idx][lb][b idx] -> [la lb][a idx][b idx]
    s = -1 if (ap and len(b.labels) % 2) else 1
    s2, lab = canon_labels(list(a.labels) + list(b.labels))
    return C * (s * s2), lab, pc, duals, left, right


def trace_pairs(data, pars, duals, pairs):
    """Contract pairs of axes (i, j) inside one tensor, each brought to the end in the
    order (i, j) by graded transposes, then evaluated with the bra-ket rule."""
    n = data.ndim
    cur = data
    cp = list(pars)
    cd = list(duals)
    axes = list(range(n))
    for i, j in pairs:
        pi, pj = axes.index(i), axes.index(j)
        rest = [k for k in range(len(axes)) if k not in (pi, pj)]
        perm = (*rest, pi, pj)
        cur, cp = gtranspose(cur, cp, perm)
        cd = [cd[p] for p in perm]
        axes = [axes[p] for p in perm]
        if not cd[-2]:
            cur = cur * _axis_sign(cp[-2], cur.ndim - 2, cur.ndim)
        cur = np.trace(cur, axis1=-2, axis2=-1)
        cp = cp[:-2]
        cd = cd[:-2]
        axes = axes[:-2]
    return cur, cp, cd, axes


def adjoint_inplace_layout(g, phase_dual=False):
    """Adjoint of X keeping the DATA axis order (what `conj` returns): reverse all odd
    factors (indices and labels), conjugate, flip bra/ket, move the labels back to the
    left. Optionally one more sign per odd index on legs that end up ket-like
    (phase_dual)."""
    n = g.data.ndim
    ktot = np.zeros(g.data.shape, dtype=int)
    for ax in range(n):
        sh = [1] * n
        sh[ax] = -1
        ktot = ktot + g.pars[ax].reshape(sh)
    m = len(g.labels)
    # reversing k odd indices: (-1)^{k(k-1)/2}; moving m labels over k odd indices: (-1)^{mk}
    sgn = 1 - 2 * ((((ktot * (ktot - 1)) // 2) + m * ktot) % 2)
    data = np.conj(g.data) * sgn
    duals = [not d for d in g.duals]
    if phase_dual:
        for ax in range(n):
            if not duals[ax]:
                data = data * _axis_sign(g.pars[ax], ax, n)
    labels = [(l, not d) for l, d in reversed(g.labels)]
    return GD(data, g.pars, duals, labels)
