"""Fock-space (Jordan-Wigner) reference model for C18/C19: explicit 2^n x 2^n matrices.
Operators are given as (label, is_creation) pairs."""
import itertools

import numpy as np


def jw_ops(modes):
    """annihilation matrices for the ordered modes"""
    n = len(modes)
    I = np.eye(2)
    Z = np.diag([1.0, -1.0])
    a = np.array([[0.0, 1.0], [0.0, 0.0]])
    ops = {}
    for k, m in enumerate(modes):
        mats = [Z] * k + [a] + [I] * (n - k - 1)
        M = mats[0]
        for x in mats[1:]:
            M = np.kron(M, x)
        ops[m] = M
    return ops


def string_mat(ops, string, dim):
    """product of operators; string = [(label, creation?)...]"""
    M = np.eye(dim)
    for lab, cr in string:
        A = ops[lab]
        M = M @ (A.T if cr else A)
    return M


def modes_of(terms, bases):
    ms = {lab for b in bases for st in b for lab, _ in st} | {lab for _, t in terms for lab, _ in t}
    return sorted(ms, key=repr)


def vev_elements(terms, bases):
    """element[i'.., i..] = <0| (per-site adjoint of basis strings, sites NOT reversed)
    term (basis strings) |0>, summed over terms."""
    modes = modes_of(terms, bases)
    ops = jw_ops(modes)
    dim = 2 ** len(modes)
    out = {}
    rng = [range(len(b)) for b in bases]
    for idxL in itertools.product(*rng):
        left = [(lab, not cr) for site, i in zip(bases, idxL) for lab, cr in reversed(site[i])]
        Lm = string_mat(ops, left, dim)[0, :]
        for idxR in itertools.product(*rng):
            right = [op for site, i in zip(bases, idxR) for op in site[i]]
            Rm = string_mat(ops, right, dim)[:, 0]
            val = 0.0
            for c, t in terms:
                val += c * (Lm @ string_mat(ops, t, dim) @ Rm)
            if val != 0:
                out[(*idxL, *idxR)] = val
    return out


def fock_matrix(terms, bases):
    """matrix of the operator on the span of the product basis states (ket strings applied
    to the vacuum, site 0 leftmost)."""
    modes = modes_of(terms, bases)
    ops = jw_ops(modes)
    dim = 2 ** len(modes)
    kets = []
    for e in itertools.product(*[range(len(b)) for b in bases]):
        string = [op for s, i in enumerate(e) for op in bases[s][i]]
        kets.append(string_mat(ops, string, dim)[:, 0])
    K = np.array(kets).T
    O = sum(c * string_mat(ops, t, dim) for c, t in terms) if terms else np.zeros((dim, dim))
    return K.T.conj() @ O @ K


def selftest():
    ops = jw_ops(["a", "b", "c"])
    for x in "abc":
        for y in "abc":
            A, B = ops[x], ops[y]
            assert np.allclose(A @ B + B @ A, 0)
            assert np.allclose(A @ B.T + B.T @ A, np.eye(8) * (x == y))
