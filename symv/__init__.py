"""symv: runtime-monitoring machinery for jcmgray/symmray (see /verif/DESIGN.md)."""
