"""Arrays with named legs: bookkeeping for networks and metamorphic routes. Every library
call goes through ctx.call so that raises are classified by the caller."""


class Raised(Exception):
    def __init__(self, op, outcome):
        self.op = op
        self.outcome = outcome
        super().__init__(f"{op}: {outcome.exc!r}")


class Surprise(Exception):
    """A library result whose rank is not what the operation promises."""

    def __init__(self, mech, msg):
        self.mech = mech
        super().__init__(msg)


class N:
    """array + leg names (+ per-name leaf reference indices for embedding)."""

    __slots__ = ("x", "names")

    def __init__(self, x, names):
        self.x = x
        self.names = list(names)
        assert len(self.names) == x.ndim, (self.names, x.ndim)

    def ax(self, name):
        return self.names.index(name)


def _do(ctx, op, fn, *a, **k):
    o = ctx.call(fn, *a, **k)
    if not o.ok:
        raise Raised(op, o)
    return o.value


def transpose(ctx, n, order):
    """order: list of names"""
    perm = tuple(n.names.index(nm) for nm in order)
    if perm == tuple(range(len(perm))):
        return n
    return N(_do(ctx, "transpose", n.x.transpose, perm), list(order))


def contract(ctx, a, b, mode=None, shared_order=None, via=None):
    """tensordot over all shared names -> N with a's free legs then b's free legs."""
    sr = ctx.sr
    shared = [nm for nm in a.names if nm in b.names]
    if shared_order is not None:
        shared = list(shared_order)
    axa = [a.names.index(nm) for nm in shared]
    axb = [b.names.index(nm) for nm in shared]
    kw = {"axes": (axa, axb), "preserve_array": True}
    if mode is not None:
        kw["mode"] = mode
    z = _do(ctx, "tensordot", sr.tensordot, a.x, b.x, **kw)
    zn = [nm for nm in a.names if nm not in shared] + [nm for nm in b.names if nm not in shared]
    if getattr(z, "ndim", None) != len(zn):
        pre = any(ix.subinfo is not None for ix in (*a.x.indices, *b.x.indices))
        raise Surprise(
            "prefused-free-leg-unfused" if pre else "contract-rank",
            f"tensordot(mode={mode}) over {shared} of legs {a.names} x {b.names} returned rank {getattr(z, 'ndim', None)}, expected {len(zn)} legs {zn}",
        )
    return N(z, zn)


def fuse(ctx, n, groups, new_names, **kw):
    """groups: list of lists of names; new_names: names of the fused legs."""
    ax_groups = [tuple(n.names.index(nm) for nm in g) for g in groups]
    z = _do(ctx, "fuse", n.x.fuse, *ax_groups, **kw)
    grouped = {nm for g in groups for nm in g}
    pos = min(n.names.index(nm) for nm in grouped)
    before = [nm for nm in n.names[:pos] if nm not in grouped]
    after = [nm for nm in n.names[pos:] if nm not in grouped]
    return N(z, before + list(new_names) + after)


def canon_order(n):
    return sorted(n.names, key=repr)
