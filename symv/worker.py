"""Worker side: one shard of one check. Writes a JSON report to the file named by the parent
(not stdout: the library prints at import time under some env configurations)."""
import ast
import faulthandler
import hashlib
import json
import os
import random
import signal
import sys
import time
import traceback

from . import callform
from . import gen as gen_mod
import warnings


class CaseTimeout(Exception):
    pass


def _alarm(signum, frame):
    raise CaseTimeout()


REFUSALS = (ValueError, NotImplementedError, TypeError)


class Outcome:
    __slots__ = ("ok", "value", "exc", "refusal")

    def __init__(self, ok, value=None, exc=None):
        self.ok = ok
        self.value = value
        self.exc = exc
        self.refusal = (exc is not None) and isinstance(exc, REFUSALS)

    @property
    def excname(self):
        return type(self.exc).__name__ if self.exc is not None else None


class Ctx:
    def __init__(self, pid, tier, seed, shard, nshards, wall, only=None):
        self.pid, self.tier, self.seed, self.shard, self.nshards = pid, tier, seed, shard, nshards
        self.t_end = time.time() + wall
        self.only = tuple(only) if only else None
        self.evaluations = 0
        self.nontrivial_sigs = set()
        self.tables = {}
        self.samples = []
        self.violations = []
        self.inconclusive = {}
        self.harness_errors = []
        self.notes = {}
        self.cur = (None, None)
        self.case_timeout = 30 if tier == "quick" else 120
        self.quick = tier == "quick"
        from . import load

        self.sr = load.load()
        if os.environ.get("SYMV_CALLFORM", "1") != "0":
            callform.install()

    # -- budgets ------------------------------------------------------------------------
    def n(self, quick, thorough):
        """Tier-dependent parameter (never rescaled)."""
        return quick if self.quick else thorough

    def budget(self, quick, thorough):
        """Case budget of a stream. SYMV_QUICK_SCALE / SYMV_THOROUGH_SCALE rescale it."""
        if self.quick:
            return max(1, int(quick * float(os.environ.get("SYMV_QUICK_SCALE", "1"))))
        return max(1, int(thorough * float(os.environ.get("SYMV_THOROUGH_SCALE", "1"))))

    def time_left(self):
        return time.time() < self.t_end

    def cases(self, stream, n):
        """This shard's share of `n` cases of a named stream: yields (idx, rng)."""
        for idx in range(self.shard, n, self.nshards):
            if self.only is not None and (self.only[0] != stream or self.only[1] != idx):
                continue
            if not self.time_left():
                self.count("budget", f"{stream}:stopped_by_wall_clock")
                self.notes[f"{stream}_stopped_at"] = idx
                return
            self.cur = (stream, idx)
            callform.RNG.seed(f"{self.seed}:{self.pid}:{stream}:{idx}:callform")
            gen_mod._conj_rng.seed(f"{self.seed}:{self.pid}:{stream}:{idx}:conj")
            yield idx, random.Random(f"{self.seed}:{self.pid}:{stream}:{idx}")

    def want(self, stream, idx):
        """For hand-rolled enumerations: honour replay filters and set the current case."""
        if self.only is not None and (self.only[0] != stream or self.only[1] != idx):
            return False
        self.cur = (stream, idx)
        callform.RNG.seed(f"{self.seed}:{self.pid}:{stream}:{idx}:callform")
        gen_mod._conj_rng.seed(f"{self.seed}:{self.pid}:{stream}:{idx}:conj")
        return True

    def run_case(self, fn, *args):
        """Run one case under a SIGALRM budget; harness exceptions are recorded, never
        turned into violations."""
        signal.signal(signal.SIGALRM, _alarm)
        signal.alarm(self.case_timeout)
        try:
            return fn(*args)
        except CaseTimeout:
            self.count("inconclusive", "case_timeout")
            self.inconclusive["case_timeout"] = self.inconclusive.get("case_timeout", 0) + 1
        except Exception:
            self.harness_errors.append(f"{self.cur}: " + traceback.format_exc()[-1800:])
        finally:
            signal.alarm(0)

    # -- counters -----------------------------------------------------------------------
    def count(self, table, key, n=1):
        t = self.tables.setdefault(table, {})
        t[key] = t.get(key, 0) + n

    def evaluated(self, n=1):
        self.evaluations += n

    def nontrivial(self, sig):
        self.nontrivial_sigs.add(hashlib.sha1(repr(sig).encode()).hexdigest()[:12])

    def sample(self, obj, limit=3):
        if len(self.samples) < limit:
            self.samples.append(_jsonable(obj))

    def violation(self, mech, msg, witness=None):
        self.count("violations", mech)
        if sum(1 for v in self.violations if v["mech"] == mech) >= 5:
            return
        self.violations.append(
            {"mech": mech, "msg": str(msg)[:2000], "witness": _jsonable(witness), "stream": self.cur[0], "case": self.cur[1], "shard": self.shard}
        )

    def inconc(self, why):
        self.inconclusive[why] = self.inconclusive.get(why, 0) + 1

    # -- facade -------------------------------------------------------------------------
    def call(self, fn, *args, **kw):
        """Invoke a library callable at the client boundary. Warnings that would hide a
        discarded imaginary part are errors."""
        try:
            with warnings.catch_warnings():
                warnings.simplefilter("error", category=self.ComplexWarning)
                return Outcome(True, fn(*args, **kw))
        except CaseTimeout:
            raise
        except RecursionError as e:
            return Outcome(False, exc=e)
        except Exception as e:
            return Outcome(False, exc=e)

    @property
    def ComplexWarning(self):
        import numpy as np

        return getattr(getattr(np, "exceptions", np), "ComplexWarning")


# ----------------------------------------------------------------------------------------
# H4: anchor reach through sys.monitoring LINE events (self-disabling per location)


def _jsonable(o, depth=0):
    """Witnesses and samples must survive json.dump whatever a check put into them (tuple keys of
    product-group charges, numpy scalars, ...): a report that cannot be written would turn a
    violation into an inconclusive run."""
    if depth > 12:
        return repr(o)
    if isinstance(o, dict):
        return {(k if isinstance(k, (str, int, float, bool)) or k is None else repr(k)): _jsonable(v, depth + 1) for k, v in o.items()}
    if isinstance(o, (list, tuple, set, frozenset)):
        return [_jsonable(v, depth + 1) for v in o]
    if isinstance(o, (str, int, float, bool)) or o is None:
        return o
    return repr(o)


class Reach:
    TOOL = 3

    def __init__(self, repo):
        self.prefix = os.path.join(repo, "symmray") + os.sep
        self.hits = set()
        self.on = False

    def start(self):
        mon = getattr(sys, "monitoring", None)
        if mon is None:
            return
        try:
            mon.use_tool_id(self.TOOL, "symv-reach")
        except ValueError:
            return
        prefix = self.prefix
        hits = self.hits
        DISABLE = mon.DISABLE

        def cb(code, line):
            fn = code.co_filename
            if fn.startswith(prefix):
                hits.add((fn[len(prefix) :], line))
            return DISABLE

        mon.register_callback(self.TOOL, mon.events.LINE, cb)
        mon.set_events(self.TOOL, mon.events.LINE)
        self.on = True

    def stop(self):
        if self.on:
            sys.monitoring.set_events(self.TOOL, 0)
            sys.monitoring.free_tool_id(self.TOOL)
            self.on = False

    def per_function(self, anchors):
        """anchors: ['abelian_core.calc_fuse_block_info', 'fermionic_core.FermionicArray.fuse']
        -> {anchor: (sorted hit lines, total executable lines)}"""
        out = {}
        cache = {}
        for a in anchors:
            modname, _, qual = a.partition(".")
            fn = modname + ".py"
            path = self.prefix + fn
            if fn not in cache:
                try:
                    cache[fn] = ast.parse(open(path).read())
                except OSError:
                    cache[fn] = None
            tree = cache[fn]
            node = tree
            for part in qual.split("."):
                nxt = None
                for ch in ast.walk(node) if node is tree else ast.iter_child_nodes(node):
                    if isinstance(ch, (ast.FunctionDef, ast.ClassDef)) and ch.name == part:
                        nxt = ch
                        break
                node = nxt
                if node is None:
                    break
            if node is None:
                out[a] = ([], 0)
                continue
            body_lines = set()
            for st in ast.walk(node):
                if isinstance(st, ast.stmt) and st is not node:
                    if isinstance(st, ast.Expr) and isinstance(getattr(st, "value", None), ast.Constant) and isinstance(st.value.value, str):
                        continue
                    body_lines.add(st.lineno)
            hit = sorted(l for (f, l) in self.hits if f == fn and l in body_lines)
            out[a] = (hit, len(body_lines))
        return out


def main(argv):
    pid, tier, seed, shard, nshards, out, wall = argv[:7]
    only = json.loads(argv[7]) if len(argv) > 7 else None
    faulthandler.enable()
    sys.setrecursionlimit(3000)
    import importlib

    ctx = Ctx(pid, tier, int(seed), int(shard), int(nshards), float(wall), only)
    mod = importlib.import_module(f"checks.{pid.lower()}")
    from . import load

    reach = Reach(load.REPO)
    if mod.META.get("anchors") and not mod.META.get("no_reach"):
        reach.start()
    try:
        mod.run(ctx)
    except Exception:
        ctx.harness_errors.append("run(): " + traceback.format_exc()[-2500:])
    reach.stop()
    if os.environ.get("SYMV_LINECOV"):
        # development aid (tools/linecov.py): every executed line of the library, per shard
        os.makedirs(os.environ["SYMV_LINECOV"], exist_ok=True)
        with open(os.path.join(os.environ["SYMV_LINECOV"], f"{pid}-{os.getpid()}.json"), "w") as f:
            json.dump(sorted(reach.hits), f)
    anchors = reach.per_function(mod.META.get("anchors", []))
    if callform.STATE["seen"]:
        ctx.count("callform", "outermost-calls-of-shimmed-functions", callform.STATE["seen"])
        ctx.count("callform", "issued-in-a-different-positional/keyword-split", callform.STATE["rewritten"])
    rep = {
        "evaluations": ctx.evaluations,
        "nontrivial": sorted(ctx.nontrivial_sigs),
        "tables": ctx.tables,
        "samples": ctx.samples,
        "violations": ctx.violations,
        "inconclusive": ctx.inconclusive,
        "harness_errors": ctx.harness_errors[:5],
        "anchors": {k: [v[0], v[1]] for k, v in anchors.items()},
        "notes": ctx.notes,
    }
    with open(out + ".tmp", "w") as f:
        json.dump(rep, f, default=repr)
    os.replace(out + ".tmp", out)


if __name__ == "__main__":
    main(sys.argv[1:])
