"""Call-form shim (client boundary): every harness call of a listed public function or method
is re-issued with the SAME arguments in a randomly chosen but equivalent form - leading
parameters positional, the rest by keyword - as far as the function's own signature allows.
Only the outermost call is rewritten (calls the library makes internally are left alone).

Installed by monkeypatching from the harness; no repository edits. The choice is drawn from
RNG, which the worker re-seeds for every case (replays are deterministic)."""
import functools
import inspect
import random

RNG = random.Random(0)
STATE = {"depth": 0, "rewritten": 0, "seen": 0, "on": True}
P_REWRITE = 0.35

FUNCTIONS = {
    "symmray.linalg": ["qr", "svd", "svd_truncated", "eigh", "solve", "norm"],
    "symmray.interface": ["tensordot", "reshape", "transpose", "squeeze", "expand_dims", "multiply_diagonal", "align_axes", "clip", "fuse", "trace", "conj"],
    "symmray.fermionic_local_operators": ["fermi_hubbard_local_array", "fermi_hubbard_spinless_local_array", "build_local_fermionic_elements", "build_local_fermionic_dense", "build_local_fermionic_array"],
    "symmray.hamiltonians": ["ham_fermi_hubbard_from_edges", "ham_fermi_hubbard_spinless_from_edges"],
    "symmray.utils": ["from_dense", "get_rand", "rand_index"],
}
METHODS = {
    "symmray.abelian_core:AbelianArray": ["transpose", "conj", "dagger", "squeeze", "expand_dims", "multiply_diagonal", "reshape", "unfuse", "unfuse_all", "einsum", "align_axes", "sync_charges", "copy_with", "fill_missing_blocks", "clip"],
    "symmray.fermionic_core:FermionicArray": ["transpose", "conj", "dagger", "squeeze", "expand_dims", "multiply_diagonal", "reshape", "unfuse", "unfuse_all", "einsum", "phase_flip", "phase_transpose", "phase_global", "phase_sync", "phase_sector"],
}


def _wrap(fn, skip_self):
    try:
        sig = inspect.signature(fn)
    except (TypeError, ValueError):
        return None
    params = list(sig.parameters.values())
    if any(p.kind == p.VAR_POSITIONAL for p in params):
        return None  # *args functions: positional form is the only form

    @functools.wraps(fn)
    def w(*a, **k):
        if STATE["depth"] or not STATE["on"]:
            return fn(*a, **k)
        STATE["depth"] += 1
        try:
            STATE["seen"] += 1
            if RNG.random() < P_REWRITE:
                try:
                    ba = sig.bind(*a, **k)
                except TypeError:
                    return fn(*a, **k)
                given = [(n, v) for n, v in ba.arguments.items()]
                names = [n for n, _ in given]
                kinds = {p.name: p.kind for p in params}
                if all(kinds[n] in (inspect.Parameter.POSITIONAL_OR_KEYWORD, inspect.Parameter.KEYWORD_ONLY, inspect.Parameter.VAR_KEYWORD) for n in names):
                    # parameters that may go positional: a prefix of the signature, all supplied
                    order = [p.name for p in params if p.kind == inspect.Parameter.POSITIONAL_OR_KEYWORD]
                    prefix = 0
                    for n in order:
                        if n in ba.arguments:
                            prefix += 1
                        else:
                            break
                    lo = 1 if skip_self else 0
                    cut = RNG.randint(lo, prefix) if prefix >= lo else lo
                    na = [ba.arguments[n] for n in order[:cut]]
                    nk = {n: v for n, v in given if n not in order[:cut] and kinds[n] != inspect.Parameter.VAR_KEYWORD}
                    for n, v in given:
                        if kinds[n] == inspect.Parameter.VAR_KEYWORD:
                            nk.update(v)
                    if (len(na), sorted(nk)) != (len(a), sorted(k)):
                        STATE["rewritten"] += 1
                    return fn(*na, **nk)
            return fn(*a, **k)
        finally:
            STATE["depth"] -= 1

    w.__symv_callform__ = True
    return w


def install():
    import importlib

    n = 0
    for modname, names in FUNCTIONS.items():
        mod = importlib.import_module(modname)
        for nm in names:
            fn = getattr(mod, nm, None)
            if fn is None or getattr(fn, "__symv_callform__", False):
                continue  # (singledispatch functions: the generic function's own signature is used)
            # (functools.singledispatch dispatches on the first POSITIONAL argument)
            w = _wrap(fn, hasattr(fn, "register"))
            if w is not None:
                setattr(mod, nm, w)
                # the package namespace re-exports some of them
                import symmray

                if getattr(symmray, nm, None) is fn:
                    setattr(symmray, nm, w)
                n += 1
    for spec, names in METHODS.items():
        modname, clsname = spec.split(":")
        cls = getattr(importlib.import_module(modname), clsname)
        for nm in names:
            fn = cls.__dict__.get(nm)
            if fn is None or not inspect.isfunction(fn) or getattr(fn, "__symv_callform__", False):
                continue
            w = _wrap(fn, True)
            if w is not None:
                setattr(cls, nm, w)
                n += 1
    return n
