"""Load the code under test from $SYMV_REPO (default /repo), never from anywhere else."""
import os
import sys

REPO = os.path.realpath(os.environ.get("SYMV_REPO", "/repo"))


def load():
    if sys.path[0] != REPO:
        sys.path.insert(0, REPO)
    # drop a previously imported copy (never happens in workers; guard anyway)
    import symmray

    f = os.path.realpath(symmray.__file__)
    if not f.startswith(REPO + os.sep):
        raise RuntimeError(f"symmray imported from {f}, expected under {REPO}")
    return symmray
