"""Parent side: fork worker subprocesses, merge their reports, classify against
KNOWN_FINDINGS.txt, write evidence, print verdict lines, pick the exit status.

exit 0 = held, 1 = violation (VIOLATION line), 2 = inconclusive (INCONCLUSIVE line)."""
import importlib
import json
import os
import subprocess
import sys
import time

VERIF = os.path.dirname(os.path.dirname(os.path.abspath(__file__)))
PY = "/venv/bin/python"
KNOWN_FILE = os.path.join(VERIF, "KNOWN_FINDINGS.txt")


def load_known():
    known = {}
    if not os.path.exists(KNOWN_FILE):
        return known
    for line in open(KNOWN_FILE):
        line = line.strip()
        if not line.startswith("known:"):
            continue
        toks = line[len("known:") :].split()
        d = {}
        rest = []
        for t in toks:
            if "=" in t and t.split("=", 1)[0] in ("property", "key") and t.split("=", 1)[0] not in d:
                k, v = t.split("=", 1)
                d[k] = v
            else:
                rest.append(t)
        if "property" in d and "key" in d:
            known[(d["property"], d["key"])] = " ".join(rest)
    return known


def check_module(pid):
    return importlib.import_module(f"checks.{pid.lower()}")


def merge_tables(dst, src):
    for k, v in src.items():
        if isinstance(v, dict):
            merge_tables(dst.setdefault(k, {}), v)
        elif isinstance(v, (int, float)) and isinstance(dst.get(k, 0), (int, float)):
            dst[k] = dst.get(k, 0) + v
        else:
            dst[k] = v


def run_check(pid, tier, seed, workers=None, only=None, extra_env=None, quiet=False):
    mod = check_module(pid)
    meta = mod.META
    t0 = time.time()
    nw = workers or meta.get("workers", {}).get(tier, 12 if tier == "quick" else 16)
    if only is not None:
        nw_run = [only["shard"]]
        nshards = only["nshards"]
    else:
        nshards = nw
        nw_run = list(range(nw))
    work = os.path.join(VERIF, ".work", f"{pid}-{tier}-{seed}-{os.getpid()}")
    os.makedirs(work, exist_ok=True)
    env = dict(os.environ)
    env.update(
        PYTHONHASHSEED="0",
        PYTHONPATH=VERIF,
        PYTHONDONTWRITEBYTECODE="1",
        OMP_NUM_THREADS="1",
        OPENBLAS_NUM_THREADS="1",
        MKL_NUM_THREADS="1",
    )
    env.pop("SYMMRAY_DEBUG", None)
    for k in ("SYMMRAY_FUSE_CACHE_MAXSIZE", "SYMMRAY_FUSE_CACHE_MAXSECTORS"):
        env.pop(k, None)
    env.update(extra_env or {})
    wall = meta.get("wall", {}).get(tier, 120 if tier == "quick" else 1500)
    wall = int(os.environ.get("SYMV_WALL", wall))  # testing aid: force the wall-clock cap
    procs = []
    for sh in nw_run:
        out = os.path.join(work, f"w{sh}.json")
        cmd = [PY, "-m", "symv.worker", pid, tier, str(seed), str(sh), str(nshards), out, str(wall)]
        if only is not None:
            cmd += [json.dumps([only["stream"], only["case"]])]
        lf = open(os.path.join(work, f"w{sh}.log"), "w")
        wenv = env
        every = meta.get("debug_shards", {}).get(tier)
        if every and sh % every == 1:
            wenv = dict(env, SYMMRAY_DEBUG="1")
        procs.append((sh, out, subprocess.Popen(cmd, cwd=VERIF, env=wenv, stdout=lf, stderr=subprocess.STDOUT), lf))
    reports = []
    dead = []
    watchdog = wall * 2 + 120
    for sh, out, p, lf in procs:
        try:
            p.wait(timeout=max(5, watchdog - (time.time() - t0)))
        except subprocess.TimeoutExpired:
            p.kill()
            dead.append((sh, "watchdog"))
            lf.close()
            continue
        lf.close()
        if p.returncode != 0 or not os.path.exists(out):
            tail = open(os.path.join(work, f"w{sh}.log")).read()[-1500:]
            dead.append((sh, f"exit {p.returncode}: {tail}"))
            continue
        reports.append(json.load(open(out)))
    # ---- merge
    ev = 0
    sigs = set()
    tables = {}
    samples = []
    violations = []
    inconc = {}
    harness_errors = []
    anchors = {}
    notes = {}
    for r in reports:
        ev += r["evaluations"]
        sigs.update(r["nontrivial"])
        merge_tables(tables, r["tables"])
        for s in r["samples"]:
            if len(samples) < 6:
                samples.append(s)
        violations += r["violations"]
        merge_tables(inconc, r["inconclusive"])
        harness_errors += r["harness_errors"]
        for k, (h, t) in r["anchors"].items():
            a = anchors.setdefault(k, [set(), t])
            a[0].update(h)
        merge_tables(notes, r.get("notes", {}))
    anchors = {k: [len(h), t] for k, (h, t) in anchors.items()}
    known = load_known()
    known_hits = {}
    real = []
    for v in violations:
        key = (pid, v["mech"])
        if key in known:
            known_hits.setdefault(v["mech"], []).append(v)
        else:
            real.append(v)
    # ---- verdict
    reasons = []
    if dead:
        reasons.append("worker died/timeouts: " + "; ".join(f"shard {s}: {w}" for s, w in dead)[:1500])
    if harness_errors:
        reasons.append(f"{len(harness_errors)} harness errors, first: {harness_errors[0]}")
    if only is None:
        floors = meta.get("floors", {}).get(tier, {})
        # A slow or loaded machine makes the wall-clock cap (not a gap in the workload) cut the
        # case budgets. Then, and only then, a reach floor counts as met at 10% of its value:
        # the monitor was reached and decided that many executions; a counter at ZERO (monitor
        # never reached) stays inconclusive. The evidence records the relaxation.
        cut = sorted(k for k in (tables.get("budget") or {}) if str(k).endswith("stopped_by_wall_clock"))
        relax = 0.1 if cut else 1.0
        short = []

        def floor_check(what, cur, floor):
            if cur < floor:
                if cur > 0 and cur >= relax * floor:
                    short.append(f"{what}={cur} (floor {floor})")
                else:
                    reasons.append(f"{what} {cur} < floor {floor}" if what.startswith(("evaluations", "distinct")) else f"monitor counter {what}={cur} < floor {floor}")

        floor_check("evaluations", ev, floors.get("evaluations", 1))
        floor_check("distinct non-trivial cases", len(sigs), floors.get("distinct_nontrivial", 2))
        unavailable = sorted(tables.get("hook_unavailable") or {})
        if unavailable:
            notes["hooks_unavailable"] = unavailable
            if not quiet:
                print(f"NOTE property={pid} internal hooks skipped, the library no longer has what they attach to: {', '.join(unavailable)[:400]} (black-box monitors unaffected)")
        for path, floor in floors.get("tables", {}).items():
            if unavailable and (path.split("/")[0] in ("hook", "hunt", "cache_size", "m6") or ("routine" in unavailable and path.startswith(("routine", "array/expand-or-unfuse-target")))):
                continue
            cur = tables
            for part in path.split("/"):
                cur = cur.get(part, {}) if isinstance(cur, dict) else 0
            if not isinstance(cur, (int, float)):
                cur = sum(v for v in cur.values() if isinstance(v, (int, float))) if isinstance(cur, dict) else 0
            floor_check(path, cur, floor)
        if short:
            notes["budget_cut_by_wall_clock"] = {"streams": cut, "floors_met_at_10_percent_only": short}
            if not quiet:
                print(f"NOTE property={pid} the wall-clock cap cut the case budget ({', '.join(cut)[:300]}); reach floors counted as met at >= 10%: {'; '.join(short)[:600]}")
        gone = []
        for a in meta.get("anchors", []):
            hit, total = anchors.get(a, [0, 0])
            if hit == 0 and total == 0 and reports:
                gone.append(a)  # not in the source any more (renamed / inlined): reach unmeasurable
            elif hit == 0:
                reasons.append(f"anchored function {a} never entered")
        if gone:
            notes["anchors_not_in_source"] = gone
            if not quiet:
                print(f"NOTE property={pid} anchored functions not found in the source (renamed or removed), reach not measured: {', '.join(gone)[:400]}")
    wall_s = time.time() - t0
    replay_paths = []
    if real and only is None:
        os.makedirs(os.path.join(VERIF, "replays"), exist_ok=True)
        seen_mech = {}
        for v in real:
            n = seen_mech.get(v["mech"], 0)
            seen_mech[v["mech"]] = n + 1
            if n >= 3:
                continue
            path = os.path.join(VERIF, "replays", f"{pid}-{tier}-{seed}-{len(replay_paths)}.json")
            json.dump({"property": pid, "tier": tier, "seed": seed, "nshards": nshards, **v}, open(path, "w"), indent=1, default=repr)
            replay_paths.append((path, v))
    # ---- evidence
    evidence = {
        "property_id": pid,
        "tier": tier,
        "seed": seed,
        "level": meta.get("level", "exploration"),
        "coverage": {
            "evaluations": ev,
            "distinct_nontrivial": len(sigs),
            "rule": meta["rule"],
            "samples": samples,
            "exhaustive": bool(meta.get("exhaustive", {}).get(tier, False)),
            "monitor_counters": tables,
            "anchor_reach_lines": anchors,
            "inconclusive_cases": inconc,
            "known_findings_seen": {k: len(v) for k, v in known_hits.items()},
            "workers": len(reports),
            "notes": notes,
        },
        "assumptions": meta.get("assumptions", []),
        "wall_s": round(wall_s, 2),
        "violations": len(real),
        "verdict": "violated" if real else ("inconclusive" if reasons else "held"),
        "inconclusive_reasons": reasons,
    }
    if only is None and not os.environ.get("SYMV_NO_EVIDENCE"):
        os.makedirs(os.path.join(VERIF, "evidence"), exist_ok=True)
        json.dump(evidence, open(os.path.join(VERIF, "evidence", f"{pid}.json"), "w"), indent=1, default=repr)
    # ---- output
    if not quiet:
        print(f"[{pid}] tier={tier} seed={seed} workers={len(reports)} evaluations={ev} distinct_nontrivial={len(sigs)} wall={wall_s:.1f}s")
        top = {k: (sum(v.values()) if isinstance(v, dict) and all(isinstance(x, (int, float)) for x in v.values()) else v) for k, v in tables.items()}
        print(f"[{pid}] monitor counters: {json.dumps(top, default=repr)[:1200]}")
        for mech, vs in known_hits.items():
            print(f"KNOWN-FINDING: property={pid} {known[(pid, mech)]} (key={mech}, seen {len(vs)}x)")
        for path, v in replay_paths:
            print(f"VIOLATION property={pid} replay={path}")
            print(f"   mechanism={v['mech']}: {v['msg'][:600]}")
        if real and not replay_paths:
            for v in real[:5]:
                print(f"VIOLATION property={pid} replay={'(replayed case)' if only is not None else 'none'}")
                print(f"   mechanism={v['mech']}: {v['msg'][:600]}")
        if real:
            print(f"[{pid}] {len(real)} violating events in total")
        for r in reasons:
            print(f"INCONCLUSIVE property={pid} reason={r}")
    try:
        import shutil

        shutil.rmtree(work)
    except OSError:
        pass
    if real:
        return 1, evidence
    if reasons:
        return 2, evidence
    return 0, evidence


def main(argv):
    import argparse

    ap = argparse.ArgumentParser(prog="vcheck")
    ap.add_argument("pid", help="property id C01..C20, or 'replay', or 'all'")
    ap.add_argument("path", nargs="?")
    ap.add_argument("--tier", default=os.environ.get("VERIF_TIER", "quick"))
    ap.add_argument("--seed", type=int, default=int(os.environ.get("VERIF_SEED", "0") or 0))
    ap.add_argument("--workers", type=int, default=None)
    a = ap.parse_args(argv)
    sys.path.insert(0, VERIF)
    if a.pid == "replay":
        rp = json.load(open(a.path))
        only = {"shard": rp["shard"], "nshards": rp["nshards"], "stream": rp["stream"], "case": rp["case"]}
        code, _ = run_check(rp["property"], rp["tier"], rp["seed"], only=only)
        return code
    if a.pid == "all":
        worst = 0
        for k in range(1, 21):
            code, _ = run_check(f"C{k:02d}", a.tier, a.seed, workers=a.workers)
            worst = max(worst, code)
        return worst
    code, _ = run_check(a.pid.upper(), a.tier, a.seed, workers=a.workers)
    return code


if __name__ == "__main__":
    sys.exit(main(sys.argv[1:]))
