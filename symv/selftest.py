"""Self-test of the oracles against hand-computed cases (no library calls involved
except constructing tiny arrays)."""
import sys

import numpy as np

from . import graded as G
from . import refsym as R


def main():
    # RefSym tables
    assert R.comb("Z4", [3, 3]) == 2 and R.neg("Z4", 0) == 0 and R.neg("Z4", 1) == 3
    assert R.comb("Z2Z2", [(1, 0), (1, 1)]) == (0, 1)
    assert R.neg("U1U1", (1, -2)) == (-1, 2) and R.par("U1U1", (1, -2)) == 1
    assert R.valid_sectors("Z2", [[0, 1], [0, 1]], [False, True], 1) == [(0, 1), (1, 0)]
    # graded transpose of two odd axes: sign -1
    d = np.array([[0.0, 2.0], [3.0, 0.0]])
    p = [np.array([0, 1]), np.array([0, 1])]
    t, _ = G.gtranspose(np.array([[1.0, 2.0], [3.0, 4.0]]), p, (1, 0))
    assert np.array_equal(t, np.array([[1.0, 3.0], [2.0, -4.0]])), t
    # ket-bra contraction of odd index gives -1, bra-ket +1
    a = G.GD(np.array([0.0, 1.0]), [np.array([0, 1])], [False])
    b = G.GD(np.array([0.0, 1.0]), [np.array([0, 1])], [True])
    c, *_ = G.contract_data(a, b, [0], [0])
    assert c == -1.0
    c, *_ = G.contract_data(b, a, [0], [0])
    assert c == 1.0
    # labels: ket-bra pair annihilates with -1, bra-ket with +1; swap gives -1
    assert G.canon_labels([(1, False), (1, True)]) == (-1, [])
    assert G.canon_labels([(1, True), (1, False)]) == (1, [])
    assert G.canon_labels([(2, False), (1, False)]) == (-1, [(1, False), (2, False)])
    from . import fock

    fock.selftest()
    print("selftest ok")


if __name__ == "__main__":
    sys.exit(main())
