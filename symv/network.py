"""Small fermionic tensor networks, random contraction routes through the library, and the
GradedDense evaluation of the same network (absolute reference)."""
import numpy as np

from . import gen, named
from . import graded as G
from . import refsym as R
from .dense import embed, is_fermionic, labels_of
from .named import N, Raised


def build_network(ctx, rng, sym, nt, pbond=0.8, maxdang=2, p_conj=0.25, label_kind="int", maxd=2, sparsity=None, all_ket_dangling=False, multi=(1, 1), maxc=None, dangs=None, mkindex=None):
    """-> list of N (tensor with leg names), refidx {name: index as seen on the ket side}.
    `multi`: range for the number of parallel bonds between a bonded pair."""
    sr = ctx.sr
    names = {t: [] for t in range(nt)}
    idx = {t: [] for t in range(nt)}
    for t1 in range(nt):
        for t2 in range(t1 + 1, nt):
            if rng.random() < pbond:
                for m in range(rng.randint(*multi)):
                    ix = mkindex() if mkindex else gen.rand_index(sr, rng, sym, maxd=maxd, maxc=maxc or (2 if nt > 3 else 3))
                    nm = f"b{t1}{t2}" + (f"_{m}" if m else "")
                    names[t1].append(nm)
                    idx[t1].append(ix)
                    names[t2].append(nm)
                    idx[t2].append(gen.conj_index(sr, ix))
    for t in range(nt):
        for d in range(dangs[t] if dangs else rng.randint(0, maxdang)):
            names[t].append(f"k{t}{d}")
            idx[t].append(mkindex() if mkindex else gen.rand_index(sr, rng, sym, maxd=maxd, maxc=maxc or (2 if nt > 3 else 3), dual=False if all_ket_dangling else None))
    if label_kind == "int":
        # (sometimes a small range symmetric about zero: L and -L both occur)
        labs = rng.sample(range(1, 60), nt) if rng.random() < 0.7 else rng.sample(range(-5, 6), nt)
    elif label_kind == "tuple":
        labs = [(rng.choice("ab"), v) for v in rng.sample(range(30), nt)]
    else:
        labs = ["s%03d" % v for v in rng.sample(range(200), nt)]
    _, _, kind = gen.pick_class(sr, rng, sym, True)
    vals = gen.Values(rng, "int", rng.choice(["float64", "float64", "complex128"]))
    out = []
    for t in range(nt):
        o = rng.sample(range(len(names[t])), len(names[t]))
        nm = [names[t][k] for k in o]
        ii = [idx[t][k] for k in o]
        sp = rng.choice([0.0, 0.0, 0.3]) if sparsity is None else sparsity
        if rng.random() < p_conj:
            y = gen.make_array(sr, rng, sym, [gen.conj_index(sr, i) for i in ii], fermionic=True, kind=kind, values=vals, label=labs[t], sparsity=sp)
            o_ = ctx.call(y.conj)
            if not o_.ok:
                raise Raised("conj", o_)
            x = o_.value
        else:
            x = gen.make_array(sr, rng, sym, ii, fermionic=True, kind=kind, values=vals, label=labs[t], sparsity=sp)
        out.append(N(x, nm))
    return out


def ref_indices(tensors, sr=None):
    """name -> reference index: union of the charge tables seen on any end of the leg (results
    of earlier contractions may have dropped charges), direction of the first tensor (in list
    order) that carries the leg."""
    cms, duals = {}, {}
    for n in tensors:
        for nm, ix in zip(n.names, n.x.indices):
            cm = cms.setdefault(nm, {})
            for c, d in ix.chargemap.items():
                assert cm.setdefault(c, d) == d
            duals.setdefault(nm, bool(ix.dual))
    from .load import load

    BI = load().BlockIndex
    return {nm: BI(cms[nm], dual=duals[nm]) for nm in cms}


def own_ref(n, refidx):
    """Reference indices for the legs of tensor n: common charge table, n's own direction."""
    from .load import load

    BI = load().BlockIndex
    return [BI(dict(refidx[nm].chargemap), dual=bool(ix.dual)) for nm, ix in zip(n.names, n.x.indices)]


def dangling(tensors):
    cnt = {}
    for n in tensors:
        for nm in n.names:
            cnt[nm] = cnt.get(nm, 0) + 1
    return [nm for nm, c in cnt.items() if c == 1]


# -------------------------------------------------------------------------------- reference
class GN:
    """GradedDense tensor with leg names."""

    def __init__(self, g, names):
        self.g = g
        self.names = list(names)


def gd_of(n, refidx=None):
    return GN(G.from_array(n.x, None if refidx is None else own_ref(n, refidx)), n.names)


def gd_contract(a, b, charge_parity_a):
    shared = [nm for nm in a.names if nm in b.names]
    axa = [a.names.index(nm) for nm in shared]
    axb = [b.names.index(nm) for nm in shared]
    C, lab, pc, duals, left, right = G.contract(a.g, b.g, axa, axb, a_parity_fallback=charge_parity_a)
    names = [a.names[i] for i in left] + [b.names[i] for i in right]
    return GN(G.GD(C, pc, duals, lab), names)


def gd_self_trace(a):
    """Contract legs that appear twice on the same tensor."""
    seen = {}
    pairs = []
    for i, nm in enumerate(a.names):
        if nm in seen:
            pairs.append((seen[nm], i))
        else:
            seen[nm] = i
    if not pairs:
        return a
    cur, cp, cd, axes = G.trace_pairs(a.g.data, a.g.pars, a.g.duals, pairs)
    return GN(G.GD(cur, cp, cd, a.g.labels), [a.names[i] for i in axes])


def reference_value(tensors, parities, refidx=None):
    """Evaluate the network with the graded model, left to right.
    -> (dense in sorted-name order, canonical labels, sorted names)"""
    cur = gd_of(tensors[0], refidx)
    par = parities[0]
    for n, p in zip(tensors[1:], parities[1:]):
        cur = gd_contract(cur, gd_of(n, refidx), par)
        par = (par + p) % 2
    order = sorted(cur.names)
    perm = tuple(cur.names.index(nm) for nm in order)
    data = cur.g.data
    if perm:
        data, _ = G.gtranspose(cur.g.data, cur.g.pars, perm)
    s, lab = G.canon_labels(cur.g.labels)
    return data * s, lab, order


def canonical_value(n, refidx):
    """Library result -> (dense in sorted-name order, canonical labels, raw labels)."""
    ref = own_ref(n, refidx)
    g = G.GD(embed(n.x, ref), __import__("symv.dense", fromlist=["parvecs"]).parvecs(R.symname(n.x), ref), [ix.dual for ix in ref], labels_of(n.x))
    order = sorted(n.names)
    perm = tuple(n.names.index(nm) for nm in order)
    data = g.data
    if perm:
        data, _ = G.gtranspose(g.data, g.pars, perm)
    s, lab = G.canon_labels(g.labels)
    return data * s, lab, labels_of(n.x)


# ----------------------------------------------------------------------------------- routes
def random_route(ctx, rng, tensors, modes=("fused", "blockwise", "auto"), p_pretranspose=0.5, p_swap=0.5, p_split=0.3, record=None):
    """Contract the whole network through the library along a random route.
    -> N of the final result. `record` (list) receives a description of the steps."""
    items = list(tensors)
    while len(items) > 1:
        # prefer connected pairs, sometimes take an outer product
        pairs = [(i, j) for i in range(len(items)) for j in range(len(items)) if i != j]
        conn = [(i, j) for i, j in pairs if set(items[i].names) & set(items[j].names)]
        i, j = rng.choice(conn if conn and rng.random() < 0.9 else pairs)
        a, b = items[i], items[j]
        if a.x.ndim and rng.random() < p_pretranspose:
            a = named.transpose(ctx, a, rng.sample(a.names, len(a.names)))
        if b.x.ndim and rng.random() < p_pretranspose:
            b = named.transpose(ctx, b, rng.sample(b.names, len(b.names)))
        shared = [nm for nm in a.names if nm in b.names]
        rng.shuffle(shared)
        mode = rng.choice(modes)
        step = {"pair": (i, j), "mode": mode, "shared": list(shared)}
        if len(shared) == 1 and 1 <= a.x.ndim <= 2 and 1 <= b.x.ndim <= 2 and a.x.ndim + b.x.ndim >= 3 and rng.random() < 0.4:
            # the same pair through the matrix-product operator (vector @ matrix, matrix @ vector,
            # matrix @ matrix; vector @ vector returns a bare number and loses the labels)
            nm = shared[0]
            a = named.transpose(ctx, a, [n_ for n_ in a.names if n_ != nm] + [nm])
            b = named.transpose(ctx, b, [nm] + [n_ for n_ in b.names if n_ != nm])
            o = ctx.call(lambda: a.x @ b.x)
            if not o.ok:
                raise Raised("matmul", o)
            z = N(o.value, [n_ for n_ in a.names if n_ != nm] + [n_ for n_ in b.names if n_ != nm])
            step["matmul"] = True
        elif len(shared) >= 2 and rng.random() < p_split:
            # one (or some) bond(s) by tensordot, the rest by single-array einsum afterwards
            k = rng.randint(1, len(shared) - 1)
            now, later = shared[:k], shared[k:]
            z = contract_subset(ctx, a, b, now, mode)
            z = einsum_trace(ctx, z, later, rng)
            step["split"] = (now, later)
        else:
            z = named.contract(ctx, a, b, mode=mode, shared_order=shared)
        if record is not None:
            record.append(step)
        items = [it for k, it in enumerate(items) if k not in (i, j)] + [z]
    return items[0]


def contract_subset(ctx, a, b, shared, mode):
    sr = ctx.sr
    axa = [a.names.index(nm) for nm in shared]
    axb = [b.names.index(nm) for nm in shared]
    o = ctx.call(sr.tensordot, a.x, b.x, axes=(axa, axb), mode=mode, preserve_array=True)
    if not o.ok:
        raise Raised("tensordot", o)
    zn = [nm for nm in a.names if nm not in shared] + [nm for nm in b.names if nm not in shared]
    return N(o.value, zn)


def einsum_trace(ctx, z, traced, rng):
    """Trace the name pairs `traced` (each appears twice in z.names) with single-array einsum."""
    letters = {}
    for nm in z.names:
        if nm not in letters:
            letters[nm] = chr(97 + len(letters))
    lhs = "".join(letters[nm] for nm in z.names)
    keep = [nm for nm in z.names if nm not in traced]
    rng.shuffle(keep)
    rhs = "".join(letters[nm] for nm in keep)
    o = ctx.call(z.x.einsum, f"{lhs}->{rhs}", preserve_array=True)
    if not o.ok:
        raise Raised("einsum", o)
    return N(o.value, keep)


def parity_of(x):
    return R.par(R.symname(x), x.charge)
