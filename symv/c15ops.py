"""Deterministic op lists for the history / configuration / thread monitors of C15.
Also runnable as a child process:  python -m symv.c15ops <seed> <n> <outfile>
(the parent sets SYMMRAY_FUSE_CACHE_* in the child's environment)."""
import hashlib
import json
import random
import sys

import numpy as np


def result_digest(r):
    """Order-insensitive digest of a result: keys, bytes, indices, charge, signs, labels."""
    from .dense import is_array, is_vector, snapshot

    def norm(s):
        if isinstance(s, tuple) and s and s[0] == "array":
            kind, cls, sym, charge, idx, blocks, phases, labels = s
            # compare values with pending signs multiplied in, block order ignored
            ph = dict(phases)
            bl = []
            for sec, (dt, shp, raw) in blocks:
                a = np.frombuffer(raw, dtype=dt).reshape(shp) * ph.get(sec, 1)
                bl.append((repr(sec), dt, shp, (a + 0.0).tobytes()))
            return (kind, cls, sym, repr(charge), idx, tuple(sorted(bl)), labels)
        if isinstance(s, tuple) and s and s[0] == "vector":
            return (s[0], s[1], tuple(sorted((repr(k), v) for k, v in s[2])))
        if isinstance(s, tuple) and s and s[0] in ("tuple", "list"):
            return (s[0], tuple(norm(v) for v in s[1]))
        return s

    return hashlib.sha1(repr(norm(snapshot(r))).encode()).hexdigest()[:20]


def family(sr, rng, sym=None):
    """A base array and near-identical siblings, each differing in ONE attribute.
    -> list of (tag, array)"""
    from . import gen
    from . import refsym as R

    sym = sym or rng.choice(["Z2", "U1", "Z4", "Z2Z2", "U1U1"])
    ferm = rng.random() < 0.4
    nd = rng.choice([3, 4])
    pool = gen.POOL[sym]
    cms = []
    for _ in range(nd):
        cs = rng.sample(pool, 2)
        cms.append({c: rng.randint(1, 2) for c in cs})
    duals = [rng.random() < 0.5 for _ in range(nd)]
    seedv = rng.getrandbits(40)

    def build(cms, duals, sym=sym, drop=None, charge_pick=0, kindsel="static"):
        r2 = random.Random(seedv)
        idx = [sr.BlockIndex(dict(cm), dual=d) for cm, d in zip(cms, duals)]
        secs_all = list(__import__("itertools").product(*[sorted(cm) for cm in cms]))
        ch = R.sector_charge(sym, secs_all[charge_pick % len(secs_all)], duals)
        secs = gen.all_sectors(sym, idx, ch)
        if drop is not None and len(secs) > 1:
            secs = [s for k, s in enumerate(secs) if k != drop % len(secs)]
        vals = gen.Values(r2, "int")
        blocks = {s: vals(tuple(ix.chargemap[c] for ix, c in zip(idx, s))) for s in secs}
        cls, extra, _ = gen.pick_class(sr, r2, sym, ferm, kind="generic_str" if sym == "Z4" else kindsel)
        kw = dict(indices=idx, charge=ch, blocks=blocks, **extra)
        if ferm and R.par(sym, ch):
            kw["oddpos"] = 11
        return cls(**kw)

    out = [("base", build(cms, duals))]
    k = rng.randrange(nd)
    d2 = list(duals)
    d2[k] = not d2[k]
    out.append(("one-direction", build(cms, d2)))
    cm2 = [dict(c) for c in cms]
    c0 = rng.choice(sorted(cm2[k]))
    cm2[k][c0] += 1
    out.append(("one-block-size", build(cm2, duals)))
    cm3 = [dict(c) for c in cms]
    others = [c for c in pool if c not in cm3[k]]
    if others:
        c_old = rng.choice(sorted(cm3[k]))
        cm3[k][rng.choice(others)] = cm3[k].pop(c_old)
        out.append(("one-charge-label", build(cm3, duals)))
    out.append(("one-missing-sector", build(cms, duals, drop=rng.randrange(8))))
    out.append(("generic-class", build(cms, duals, kindsel="generic_obj")))
    # the symmetry: Z2 vs U1 vs Z4 over labels {0, 1}
    if sym in ("Z2", "U1", "Z4"):
        cmb = [{0: rng.randint(1, 2), 1: rng.randint(1, 2)} for _ in range(nd)]
        for s2 in ("Z2", "U1", "Z4"):
            try:
                out.append((f"symmetry-{s2}", build(cmb, duals, sym=s2, charge_pick=3)))
            except Exception:
                pass
    # conj'd copy after the original's hash key has been memoised
    base = out[0][1]
    for ix in base.indices:
        ix.hashkey()
    out.append(("conj-after-hashkey", base.conj()))
    return out


def subindex_twins(sr, rng):
    """Two arrays whose fused leg has the same outer charge table but different sub-index
    structure behind it."""
    ia = sr.BlockIndex({0: 1, 1: 1}, dual=False)
    ib = sr.BlockIndex({0: 1, 1: 1}, dual=False)
    ic = sr.BlockIndex({0: 2, 1: 2}, dual=True)
    x = sr.Z2Array.from_fill_fn(lambda s: np.arange(1, 1 + int(np.prod(s)), dtype=float).reshape(s), [ia, ib, ic])
    y = x.transpose((1, 0, 2))
    f1 = x.fuse((0, 1))
    f2 = y.fuse((0, 1))
    # third: same outer table from sub-indices with different directions
    ia2 = sr.BlockIndex({0: 1, 1: 1}, dual=True)
    z = sr.Z2Array.from_fill_fn(lambda s: np.arange(1, 1 + int(np.prod(s)), dtype=float).reshape(s), [ia, ia2, ic])
    f3 = z.fuse((0, 1))
    return [("subindex-A", f1), ("subindex-B", f2), ("subindex-C", f3)]


def prefused_extent_family(sr, rng):
    """Arrays whose FUSED leg has the same outer charge table, direction and sub-indices but a
    different sub-sector table behind it (a different single sector missing before the fuse)."""
    from . import gen

    sym = rng.choice(["Z2", "Z2", "U1", "Z4", "Z2Z2"])
    pool = gen.POOL[sym]
    cs = rng.sample(pool, 2)
    d = rng.randint(1, 2)
    idx = [sr.BlockIndex({c: d for c in cs}, dual=rng.random() < 0.5) for _ in range(4)]
    ch = gen.pick_charge(rng, sym, idx)
    secs = gen.all_sectors(sym, idx, ch)
    ferm = rng.random() < 0.3
    out = []
    seedv = rng.getrandbits(40)
    drops = rng.sample(range(len(secs)), min(4, len(secs)))
    for k in drops:
        r2 = random.Random(seedv)
        vals = gen.Values(r2, "int")
        blocks = {s_: vals(tuple(ix.chargemap[c] for ix, c in zip(idx, s_))) for j, s_ in enumerate(secs) if j != k}
        if not blocks:
            continue
        cls, extra, _ = gen.pick_class(sr, r2, sym, ferm, kind="generic_str" if sym == "Z4" else "static")
        kw = dict(indices=idx, charge=ch, blocks=blocks, **extra)
        from . import refsym as R

        if ferm and R.par(sym, ch):
            kw["oddpos"] = 13
        x = cls(**kw)
        g = rng.choice([(0, 1), (1, 2), (2, 3), (0, 2)])
        try:
            out.append((f"prefused-missing-{k}", x.fuse(g)))
        except Exception:
            pass
    return out


def nested_chain_family(sr, rng, fuse=True, values="int"):
    """Arrays fused TWICE (a fused leg that is itself a sub-index of a fused leg) whose only
    difference lies at the bottom of the fuse history: order / direction / charge tables of
    the innermost sub-indices, all giving the same table one and two levels up."""
    from . import gen
    from . import refsym as R

    sym = rng.choice(["Z2", "Z2", "U1", "Z4", "Z2Z2"])
    pool = gen.POOL[sym]
    ferm = rng.random() < 0.3
    d0 = rng.random() < 0.5
    c0 = rng.choice(pool)
    cs = rng.sample(pool, 2)
    ia = ({c0: 2}, d0)
    ib = ({cs[0]: 1, cs[1]: 1}, d0)
    variants = [("nested-A", [ia, ib]), ("nested-B", [ib, ia])]
    if sym in ("Z2", "Z2Z2"):
        # direction does not matter for the fused table of a self-inverse group
        variants.append(("nested-C", [(ia[0], not d0), ib]))
        variants.append(("nested-D", [ib, (ia[0], not d0)]))
    rest = [({c: rng.randint(1, 2) for c in rng.sample(pool, 2)}, rng.random() < 0.5) for _ in range(3)]
    seedv = rng.getrandbits(40)
    out = []
    for tag, first in variants:
        r2 = random.Random(seedv)
        idx = [sr.BlockIndex(dict(cm), dual=d) for cm, d in first + rest]
        secs_all = list(__import__("itertools").product(*[sorted(ix.chargemap) for ix in idx]))
        ch = R.sector_charge(sym, sorted(secs_all, key=repr)[0], [ix.dual for ix in idx])
        secs = gen.all_sectors(sym, idx, ch)
        if not secs:
            continue
        vals = gen.Values(r2, values)
        blocks = {s_: vals(tuple(ix.chargemap[c] for ix, c in zip(idx, s_))) for s_ in secs}
        cls, extra, _ = gen.pick_class(sr, r2, sym, ferm, kind="generic_str" if sym == "Z4" else "static")
        kw = dict(indices=idx, charge=ch, blocks=blocks, **extra)
        if ferm and R.par(sym, ch):
            kw["oddpos"] = 17
        if not fuse:
            out.append((tag, cls(**kw)))
            continue
        try:
            x = cls(**kw)
            x1 = x.fuse((0, 1))
            x2 = x1.fuse((0, 1))
        except Exception:
            continue
        out.append((tag + "/depth2", x2))
        if rng.random() < 0.5:
            out.append((tag + "/depth1-bystander", x1))
    return out


def hash_twin_family(sr, rng):
    """Fused arrays whose sub-sector tables differ only by labels with EQUAL Python hash()
    (hash(-1) == hash(-2), hence hash((-1, -2)) == hash((-2, -1))): A lacks every sector whose
    first two charges are (p, q), B lacks (q, p), C has both; fused over the first two axes the
    tables agree in everything but those keys."""
    from . import gen
    from . import refsym as R

    sym = rng.choice(["U1", "U1", "U1U1"])
    if sym == "U1":
        p_, q_ = -1, -2
        others = [0, 1]
    else:
        p_, q_ = rng.choice([((-1, 0), (-2, 0)), ((0, -1), (0, -2)), ((-1, -2), (-2, -1)), ((-1, 1), (-2, 1))])
        others = [(0, 0), (1, 0)]
    d = rng.randint(1, 2)
    dual0 = rng.random() < 0.5
    tab = {p_: d, q_: d}
    if rng.random() < 0.5:
        tab[others[0]] = rng.randint(1, 2)
    tab = dict(sorted(tab.items()))
    i0 = (tab, dual0)
    i1 = (dict(tab), dual0)
    rest = [({c: rng.randint(1, 2) for c in rng.sample(gen.POOL[sym], 2)}, rng.random() < 0.5) for _ in range(rng.randint(1, 2))]
    ferm = rng.random() < 0.3
    seedv = rng.getrandbits(40)
    out = []
    for tag, lacking in (("hashtwin-A", [(p_, q_)]), ("hashtwin-B", [(q_, p_)]), ("hashtwin-C", [])):
        r2 = random.Random(seedv)
        idx = [sr.BlockIndex(dict(sorted(cm.items())), dual=dl) for cm, dl in [i0, i1] + rest]
        # total charge: that of a sector with first two charges (p, q) - also valid for (q, p)
        tail = [sorted(ix.chargemap)[0] for ix in idx[2:]]
        ch = R.sector_charge(sym, [p_, q_] + tail, [ix.dual for ix in idx])
        secs = [s_ for s_ in gen.all_sectors(sym, idx, ch) if (s_[0], s_[1]) not in lacking]
        if len(secs) < 2:
            continue
        vals = gen.Values(r2, "int")
        blocks = {s_: vals(tuple(ix.chargemap[c] for ix, c in zip(idx, s_))) for s_ in secs}
        cls, extra, _ = gen.pick_class(sr, r2, sym, ferm, kind="static")
        kw = dict(indices=idx, charge=ch, blocks=blocks, **extra)
        if ferm and R.par(sym, ch):
            kw["oddpos"] = 19
        try:
            out.append((tag, cls(**kw).fuse((0, 1))))
        except Exception:
            pass
    return out


def hermitian_lazy_family(sr, rng):
    """Square Hermitian fermionic matrices that still carry pending signs (as left by a lazy
    transpose), with blocks large enough for numpy to release the interpreter lock."""
    from . import gen
    from . import refsym as R

    out = []
    for _ in range(2):
        sym = rng.choice(["Z2", "U1", "Z2Z2"])
        cs = rng.sample(gen.POOL[sym], 2)
        d = rng.choice([3, 8, 24, 40])
        r = sr.BlockIndex({c: d for c in sorted(cs)}, dual=rng.random() < 0.5)
        a = gen.make_array(sr, rng, sym, [r, gen.conj_index(sr, r)], charge=R.identity(sym), fermionic=True, kind="static", values=gen.Values(rng, "gauss", rng.choice(["float64", "complex128"])), sparsity=0.0, nphase=0, exotic=False)
        try:
            h = a + a.dagger()
            h.phase_transpose((1, 0), inplace=True)
        except Exception:
            continue
        if h.blocks and any(v == -1 for v in h.phases.values()):
            out.append((f"hermitian-lazy-{sym}-{d}", h))
    return out


def _eigh_digestable(sr, m):
    w, v = sr.linalg.eigh(m)
    return tuple(sorted((repr(c), tuple(np.round(np.sort(np.asarray(b)), 8) + 0.0)) for c, b in w.blocks.items()))


def stripped_twin(sr, x):
    """Same charge tables, directions, sectors and block values, but every fused leg replaced
    by a plain index (no sub-index information). None if x has no fused leg."""
    if not any(ix.subinfo is not None for ix in x.indices):
        return None
    idx = [sr.BlockIndex(dict(ix.chargemap), dual=ix.dual) for ix in x.indices]
    kw = dict(indices=idx, charge=x.charge, blocks={k: np.array(v) for k, v in x.blocks.items()})
    if not type(x).static_symmetry:
        kw["symmetry"] = x.symmetry
    if getattr(x, "fermionic", False):
        kw["phases"] = dict(x.phases)
        kw["oddpos"] = list(x.oddpos)
    return type(x)(**kw)


def _mk_op(sr, tag, x, spec):
    kind = spec[0]
    if kind == "fuse":
        gs = spec[1]
        return (f"{tag}.fuse{gs}", lambda x=x, gs=gs: x.fuse(*gs), tag)
    if kind == "fuse-unfuse":
        gs = spec[1]
        return (f"{tag}.fuse{gs}.unfuse_all", lambda x=x, gs=gs: x.fuse(*gs).unfuse_all(), tag)
    if kind == "reshape":
        tgt = spec[1]
        return (f"{tag}.reshape{tgt}", lambda x=x, tgt=tgt: x.reshape(tgt), tag)
    if kind == "tensordot":
        ax, mode = spec[1], spec[2]
        return (f"{tag}.conj.tensordot[{ax}]{mode}", lambda x=x, ax=ax, mode=mode: sr.tensordot(x.conj(), x, axes=(ax, ax), mode=mode, preserve_array=True), tag)
    if kind == "svd":
        perm, kk = spec[1], spec[2]
        return (f"{tag}.fuse-matrix{perm}/{kk}.svd_truncated", lambda x=x, perm=perm, kk=kk: _svd_digestable(sr, x.fuse(tuple(perm[:kk]), tuple(perm[kk:]))), tag)
    if kind == "fuse-shrink-fuse":
        gs, ax, gone, how = spec[1], spec[2], spec[3], spec[4]

        def f(x=x, gs=gs, ax=ax, gone=gone, how=how):
            # the same fuse twice on ONE object, with an in-place removal of sectors in between
            y = x.copy()
            y.fuse(*gs)
            cm = y.indices[ax].chargemap
            keep = {c: np.ones(d) for c, d in cm.items() if c != gone}
            if how == "multiply_diagonal" and keep:
                y.multiply_diagonal(sr.BlockVector(keep), ax, inplace=True)
            else:
                for s_ in [s_ for s_ in list(y.blocks) if s_[ax] == gone][: max(0, len(y.blocks) - 1)]:
                    del y.blocks[s_]
            return y.fuse(*gs)

        return (f"{tag}.fuse{gs}; drop charge {gone!r} of axis {ax} in place ({how}); fuse{gs} again", f, tag)
    perm = spec[1]
    return (f"{tag}.transpose{perm}", lambda x=x, perm=perm: x.transpose(perm), tag)


def make_ops(sr, seed, n):
    """-> (arrays, ops); ops = list of (description, thunk, operand tag). Operands are shared
    between ops. Every operand with a fused leg also has a 'stripped' twin (same tables, no
    sub-index information) on which the same op is issued."""
    from . import gen
    from checks.c05 import groupings

    rng = random.Random(f"c15ops:{seed}")
    arrays = []
    while len(arrays) < max(6, n // 6):
        arrays += family(sr, rng)
    arrays += subindex_twins(sr, rng)
    arrays += prefused_extent_family(sr, rng)
    arrays += nested_chain_family(sr, rng)
    if rng.random() < 0.6:
        arrays += hash_twin_family(sr, rng)
    herm = hermitian_lazy_family(sr, rng)
    arrays += herm
    twins = {}
    for tag, x in list(arrays):
        t = stripped_twin(sr, x)
        if t is not None:
            twins[tag] = ("stripped:" + tag, t)
            arrays.append(twins[tag])
    base = [(t, x) for t, x in arrays if not t.startswith("stripped:") and not t.startswith("hermitian-lazy")]
    fused_in = [(t, x) for t, x in base if t in twins]
    ops = []
    for tag, x in herm:
        # eigh next to other out-of-place calls on the same (shared) matrix
        ops.append((f"{tag}.eigh", lambda x=x: _eigh_digestable(sr, x), tag))
        ops.append((f"{tag}.transpose", lambda x=x: x.transpose((1, 0)), tag))
        ops.append((f"{tag}.conj.tensordot", lambda x=x: sr.tensordot(x.conj(), x, axes=2, preserve_array=True), tag))
        ops.append((f"{tag}.eigh-again", lambda x=x: _eigh_digestable(sr, x), tag))
    for k in range(n):
        tag, x = rng.choice(fused_in) if (fused_in and rng.random() < 0.35) else rng.choice(base)
        kind = rng.choice(["fuse", "fuse", "reshape", "tensordot", "svd", "transpose", "fuse-unfuse", "fuse-shrink-fuse"])
        if x.ndim < 2:
            kind = "transpose"
        if kind == "fuse-shrink-fuse":
            ax_ = rng.randrange(x.ndim)
            cs_ = sorted(x.indices[ax_].chargemap)
            if len(cs_) < 2 or any(ix.subinfo is not None for ix in x.indices):
                kind = "fuse"
            else:
                ops.append(_mk_op(sr, tag, x, (kind, rng.choice(groupings(rng, x.ndim, 3)), ax_, rng.choice(cs_), rng.choice(["multiply_diagonal", "del-blocks"]))))
                continue
        if kind in ("fuse", "fuse-unfuse"):
            spec = (kind, rng.choice(groupings(rng, x.ndim, 3)))
        elif kind == "reshape":
            shp = tuple(ix.size_total for ix in x.indices)
            kk = rng.randint(0, x.ndim - 2)
            spec = (kind, shp[:kk] + (shp[kk] * shp[kk + 1],) + shp[kk + 2 :])
        elif kind == "tensordot":
            mode = rng.choice(["fused", "blockwise", "auto"])
            spec = (kind, rng.sample(range(x.ndim), rng.randint(1, x.ndim)), mode)
        elif kind == "svd":
            kk = rng.randint(1, x.ndim - 1)
            spec = (kind, rng.sample(range(x.ndim), x.ndim), kk)
        else:
            spec = ("transpose", tuple(rng.sample(range(x.ndim), x.ndim)))
        ops.append(_mk_op(sr, tag, x, spec))
        if tag in twins and kind != "reshape":
            ops.append(_mk_op(sr, twins[tag][0], twins[tag][1], spec))
    return arrays, ops


def _svd_digestable(sr, m):
    u, s, vh = sr.linalg.svd_truncated(m, max_bond=3, absorb=None)
    # gauge-free: singular values and the truncated product
    prod = sr.tensordot(sr.multiply_diagonal(u, s, 1), vh, 1, preserve_array=True)
    from .dense import embed

    return (np.round(embed(prod, m.indices), 9) + 0.0, tuple(sorted((repr(c), tuple(np.round(np.asarray(v), 9))) for c, v in s.blocks.items())))


def run_ops(ops):
    out = []
    for desc, fn, *_ in ops:
        try:
            out.append(result_digest(fn()))
        except Exception as e:  # recorded, compared like a value
            out.append(f"raise:{type(e).__name__}")
    return out


def main(argv):
    seed, n, outfile = int(argv[0]), int(argv[1]), argv[2]
    from . import load

    sr = load.load()
    import symmray.abelian_core as ac

    arrays, ops = make_ops(sr, seed, n)
    dig = run_ops(ops)
    g = lambda n: getattr(ac, n, None)  # statistics only; None when the library no longer has them
    json.dump({"digests": dig, "maxsize": g("_fuseinfo_cache_maxsize"), "maxsectors": g("_fuseinfo_cache_maxsectors"), "hits": g("_fi_hit") or 0, "missed": g("_fi_missed") or 0}, open(outfile, "w"))


if __name__ == "__main__":
    main(sys.argv[1:])
