"""User-defined symmetries, written the way the README tells a user to: subclasses of
symmray.symmetries.Symmetry with plain methods, at module level (so they pickle)."""
from symmray.symmetries import Symmetry


class Z3(Symmetry):
    """Charges {0, 1, 2} added mod 3; every charge even."""

    __slots__ = ()

    def valid(self, *charges):
        return all(c in (0, 1, 2) for c in charges)

    def combine(self, *charges):
        return sum(charges) % 3

    def sign(self, charge, dual=True):
        return (-charge) % 3 if dual else charge

    def parity(self, charge):
        return 0


class BoseFermi(Symmetry):
    """Charges (N_f, N_b), added componentwise; parity N_f % 2. Same labels as U1U1,
    a different grading."""

    __slots__ = ()

    def valid(self, *charges):
        return all(isinstance(c, tuple) and len(c) == 2 for c in charges)

    def combine(self, *charges):
        return (sum(c[0] for c in charges), sum(c[1] for c in charges))

    def sign(self, charge, dual=True):
        return (-charge[0], -charge[1]) if dual else charge

    def parity(self, charge):
        return charge[0] % 2
