"""RefSym: the harness's own charge arithmetic (never calls symmray.symmetries).

Charges: Z2 {0,1}; Z4 {0..3}; U1 ints; Z2Z2 pairs over {0,1}; U1U1 pairs of ints.

Two USER-DEFINED symmetries (the README documents supplying one's own Symmetry subclass;
the classes themselves are defined by gen.user_symmetry): "Z3" (charges {0,1,2}, every charge
even) and "BoseFermi" (pairs (N_f, N_b) of ints added componentwise, parity N_f % 2 - the
same labels as U1U1 with a DIFFERENT grading).
"""

USER_SYMS = ("Z3", "BoseFermi")

SYMS = ("Z2", "U1", "Z2Z2", "U1U1", "Z4")


def symname(x):
    """Name of the symmetry of a symmray array (class name of its symmetry object)."""
    return type(x.symmetry).__name__


def identity(sym):
    return (0, 0) if sym in ("Z2Z2", "U1U1", "BoseFermi") else 0


def comb(sym, cs):
    cs = list(cs)
    if sym == "Z2":
        return sum(cs) % 2
    if sym == "Z4":
        return sum(cs) % 4
    if sym == "U1":
        return sum(cs)
    if sym == "Z2Z2":
        return (sum(c[0] for c in cs) % 2, sum(c[1] for c in cs) % 2)
    if sym in ("U1U1", "BoseFermi"):
        return (sum(c[0] for c in cs), sum(c[1] for c in cs))
    if sym == "Z3":
        return sum(cs) % 3
    raise KeyError(sym)


def neg(sym, c):
    if sym in ("Z2", "Z2Z2"):
        return c
    if sym == "Z4":
        return (-c) % 4
    if sym == "U1":
        return -c
    if sym in ("U1U1", "BoseFermi"):
        return (-c[0], -c[1])
    if sym == "Z3":
        return (-c) % 3
    raise KeyError(sym)


def signed(sym, c, dual):
    return neg(sym, c) if dual else c


def _isint(v):
    import numbers

    return isinstance(v, numbers.Integral) and not isinstance(v, bool)


def valid(sym, c):
    if sym == "Z2":
        return _isint(c) and c in (0, 1)
    if sym == "Z4":
        return _isint(c) and c in (0, 1, 2, 3)
    if sym == "U1":
        return _isint(c)
    if sym == "Z2Z2":
        return isinstance(c, tuple) and len(c) == 2 and all(_isint(v) and v in (0, 1) for v in c)
    if sym in ("U1U1", "BoseFermi"):
        return isinstance(c, tuple) and len(c) == 2 and all(_isint(v) for v in c)
    if sym == "Z3":
        return _isint(c) and c in (0, 1, 2)
    raise KeyError(sym)


def par(sym, c):
    if sym in ("Z2", "Z4", "U1"):
        return c % 2
    if sym == "Z3":
        return 0
    if sym == "BoseFermi":
        return c[0] % 2
    return (c[0] + c[1]) % 2


def sector_charge(sym, sector, duals):
    return comb(sym, [signed(sym, c, d) for c, d in zip(sector, duals)])


def valid_sectors(sym, chargelists, duals, charge):
    """Brute-force enumeration: all tuples of available charges combining to `charge`."""
    import itertools

    out = []
    for sec in itertools.product(*chargelists):
        if sector_charge(sym, sec, duals) == charge:
            out.append(sec)
    return out
