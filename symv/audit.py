"""C01 oracle: independent structural audit of any value returned by the library.
Uses RefSym only; never calls check()/is_valid_sector()/BlockIndex.check()."""
import numpy as np

from . import refsym as R
from .dense import is_array, is_fermionic, is_vector, labels_of, phases_of


def audit_index(ix, sym, path="ix"):
    errs = []
    cm = ix.chargemap
    keys = list(cm)
    try:
        if keys != sorted(keys):
            errs.append(f"{path}: charge table not sorted {keys}")
    except TypeError:
        errs.append(f"{path}: charge table keys not sortable {keys}")
    if len(set(keys)) != len(keys):
        errs.append(f"{path}: duplicate charges")
    for c, d in cm.items():
        if not R.valid(sym, c):
            errs.append(f"{path}: invalid charge label {c!r} for {sym}")
        if not (isinstance(d, (int, np.integer)) and not isinstance(d, bool) and d > 0):
            errs.append(f"{path}: size {d!r} of charge {c!r} not a positive int")
    if not isinstance(ix.dual, (bool, np.bool_)) and ix.dual not in (0, 1):
        errs.append(f"{path}: dual flag {ix.dual!r}")
    si = ix.subinfo
    if si is not None:
        ext = si.extents
        if set(ext) != set(cm):
            errs.append(f"{path}: sub-index table charges {sorted(ext, key=repr)} != charge table {keys}")
        for c, e in ext.items():
            tot = 0
            seen = set()
            for sub, d in e.items():
                if sub in seen:
                    errs.append(f"{path}: duplicate sub-sector {sub}")
                seen.add(sub)
                if len(sub) != len(si.indices):
                    errs.append(f"{path}: sub-sector {sub} has wrong length")
                    continue
                try:
                    dd = 1
                    for sc, six in zip(sub, si.indices):
                        dd *= six.chargemap[sc]
                except KeyError:
                    errs.append(f"{path}: sub-sector {sub} uses a charge absent from its sub-index")
                    continue
                if dd != d:
                    errs.append(f"{path}: sub-sector {sub} extent {d} != product of sub sizes {dd}")
                sg = [sc if bool(six.dual) == bool(ix.dual) else R.neg(sym, sc) for sc, six in zip(sub, si.indices)]
                if R.comb(sym, sg) != c:
                    errs.append(f"{path}: sub-sector {sub} combines to {R.comb(sym, sg)!r}, filed under {c!r}")
                tot += d
            if c in cm and tot != cm[c]:
                errs.append(f"{path}: sub-sector extents of charge {c!r} sum to {tot} != size {cm[c]}")
        for k, six in enumerate(si.indices):
            errs += audit_index(six, sym, f"{path}.sub{k}")
    return errs


def audit(x):
    """-> list of error strings (empty = valid)."""
    errs = []
    if is_vector(x):
        for k, b in x.blocks.items():
            if np.ndim(b) != 1:
                errs.append(f"vector block {k!r} has ndim {np.ndim(b)}")
        return errs
    if not is_array(x):
        return errs
    sym = R.symname(x)
    if sym not in R.SYMS and sym not in R.USER_SYMS:
        return [f"unknown symmetry {sym}"]
    if not R.valid(sym, x.charge):
        errs.append(f"invalid total charge {x.charge!r} for {sym}")
    nd = len(x.indices)
    for k, ix in enumerate(x.indices):
        errs += audit_index(ix, sym, f"index{k}")
    duals = [bool(ix.dual) for ix in x.indices]

    def conserving(sec):
        if len(sec) != nd:
            return f"has length {len(sec)} != ndim {nd}"
        for c in sec:
            if not R.valid(sym, c):
                return f"contains invalid charge {c!r}"
        tot = R.sector_charge(sym, sec, duals)
        if tot != x.charge:
            return f"combines to {tot!r} != total charge {x.charge!r}"
        return None

    for sec, b in x.blocks.items():
        e = conserving(sec)
        if e:
            errs.append(f"block {sec}: {e}")
            continue
        missing = [c for c, ix in zip(sec, x.indices) if c not in ix.chargemap]
        if missing:
            errs.append(f"block {sec}: charge(s) {missing} not in index table")
            continue
        shp = tuple(ix.chargemap[c] for c, ix in zip(sec, x.indices))
        if tuple(np.shape(b)) != shp:
            errs.append(f"block {sec}: shape {tuple(np.shape(b))} != index sizes {shp}")
    if is_fermionic(x):
        for sec, p in phases_of(x).items():
            if not (isinstance(p, (int, np.integer)) and p in (1, -1)):
                errs.append(f"pending sign of {sec}: {p!r} not +-1")
            e = conserving(sec)
            if e:
                errs.append(f"pending-sign key {sec}: {e}")
        if R.valid(sym, x.charge) and len(labels_of(x)) % 2 != R.par(sym, x.charge):
            errs.append(f"{len(labels_of(x))} odd-position labels but total charge {x.charge!r} has parity {R.par(sym, x.charge)}")
    return errs


def audit_any(res):
    """Audit arrays / vectors nested in tuples."""
    errs = []
    if isinstance(res, (tuple, list)):
        for k, r in enumerate(res):
            errs += [f"[{k}] {e}" for e in audit_any(r)]
        return errs
    return audit(res)
