"""Seeded generators of hostile inputs. Everything is drawn from small pools so that
collisions and near-collisions are frequent. Arrays are built with the harness's own
sector enumeration (RefSym), not with the library's random/from_fill_fn."""
import itertools

import numpy as np

from . import refsym as R

POOL = {
    "Z2": [0, 1],
    "Z4": [0, 1, 2, 3],
    "U1": [-2, -1, 0, 1, 2, 3],
    "Z2Z2": [(0, 0), (0, 1), (1, 0), (1, 1)],
    "U1U1": [(0, 0), (0, 1), (1, 0), (1, 1), (-1, 0), (0, -1), (2, 1), (-1, 1)],
}
POOL["Z3"] = [0, 1, 2]
POOL["BoseFermi"] = list(POOL["U1U1"])
SYMS4 = ("Z2", "U1", "Z2Z2", "U1U1")
SYMS5 = ("Z2", "U1", "Z2Z2", "U1U1", "Z4")


def static_class(sr, sym, fermionic):
    return {
        ("Z2", False): sr.Z2Array,
        ("U1", False): sr.U1Array,
        ("Z2Z2", False): sr.Z2Z2Array,
        ("U1U1", False): sr.U1U1Array,
        ("Z2", True): sr.Z2FermionicArray,
        ("U1", True): sr.U1FermionicArray,
        ("Z2Z2", True): sr.Z2Z2FermionicArray,
        ("U1U1", True): sr.U1U1FermionicArray,
    }[sym, fermionic]


_USER = {}
P_USER_SYM = 0.06


def pick_sym(rng, fermionic_capable=True):
    """One of the five shipped symmetries or (6%) a user-defined one."""
    import os

    if rng.random() < float(os.environ.get("SYMV_P_USER", P_USER_SYM)):
        return "BoseFermi" if fermionic_capable and rng.random() < 0.7 else "Z3"
    return rng.choice(SYMS5)



def user_symmetry(sr, name):
    """An instance of a user-defined sr.Symmetry subclass (README: "See the symmray.symmetries
    module for how to define your own symmetries. You can supply these directly to AbelianArray
    and FermionicArray constructors"). Written the way a user would: plain methods, no caches."""
    if name not in _USER:
        from . import usersym

        _USER["Z3"] = usersym.Z3
        _USER["BoseFermi"] = usersym.BoseFermi
    return _USER[name]()


def pick_class(sr, rng, sym, fermionic, kind=None):
    """-> (cls, extra_kwargs, kind). Z4 only exists through the generic classes."""
    if sym in R.USER_SYMS:
        return (sr.FermionicArray if fermionic else sr.AbelianArray), {"symmetry": user_symmetry(sr, sym)}, "generic_user"
    if kind is None:
        kind = "generic" if sym == "Z4" else rng.choice(["static", "static", "generic_str", "generic_obj"])
    if sym == "Z4" and kind == "static":
        kind = "generic_str"
    if kind == "static":
        return static_class(sr, sym, fermionic), {}, kind
    cls = sr.FermionicArray if fermionic else sr.AbelianArray
    if kind == "generic_obj":
        return cls, {"symmetry": sr.get_symmetry(sym)}, kind
    return cls, {"symmetry": sym}, "generic_str"


def rand_index(sr, rng, sym, dual=None, maxc=3, maxd=3, mind=1, p_single=0.12, minc=1):
    pool = POOL[sym]
    if rng.random() < p_single:
        cs = [rng.choice(pool)]
        cm = {cs[0]: 1 if rng.random() < 0.7 else rng.randint(mind, maxd)}
    else:
        cs = rng.sample(pool, rng.randint(min(minc, len(pool)), min(maxc, len(pool))))
        cm = {c: rng.randint(mind, maxd) for c in cs}
    return sr.BlockIndex(cm, dual=(rng.random() < 0.5) if dual is None else dual)


def typed_number(rng, v, log=None):
    """The number v as one of the objects users hold coefficients in: float, int, numpy
    scalar, or a 0-d numpy array (mutable). `log` receives (object, float value)."""
    r = rng.random()
    if r < 0.6:
        o = float(v)
    elif r < 0.7 and float(v).is_integer():
        o = int(v)
    elif r < 0.85:
        o = np.float64(v)
    else:
        o = np.array(float(v))
    if log is not None:
        log.append((o, float(v)))
    return o


def identity_history(sr, rng, x, nsteps=None):
    """The same tensor (same axes in the same order, same values) after a short history of
    public operations that cancel: the object's internal state - block order, pending signs,
    index objects, memoised keys - is whatever the library left behind."""
    done = []
    for _ in range(nsteps or rng.randint(1, 3)):
        h = rng.choice(["conj-conj", "expand-squeeze", "scale-unscale", "add-zero", "transpose-back", "diag-ones", "copy", "transpose-back-inplace", "dagger-dagger"])
        try:
            if h == "conj-conj":
                y = x.conj().conj()
            elif h == "dagger-dagger":
                y = x.dagger().dagger()
            elif h == "expand-squeeze":
                k = rng.randint(0, x.ndim)
                y = x.expand_dims(k).squeeze(k)
            elif h == "scale-unscale":
                y = (x * 2.0) / 2.0
            elif h == "add-zero":
                y = x + (x * 0.0)
            elif h in ("transpose-back", "transpose-back-inplace") and x.ndim >= 2:
                p = rng.sample(range(x.ndim), x.ndim)
                inv = tuple(p.index(i) for i in range(x.ndim))
                if h == "transpose-back":
                    y = x.transpose(tuple(p)).transpose(inv)
                else:
                    y = x.copy()
                    y.transpose(tuple(p), inplace=True)
                    y.transpose(inv, inplace=True)
            elif h == "diag-ones" and x.ndim:
                k = rng.randrange(x.ndim)
                dt = np.asarray(next(iter(x.blocks.values()))).dtype if x.blocks else float
                y = x.multiply_diagonal(sr.BlockVector({c: np.ones(d, dtype=dt) for c, d in x.indices[k].chargemap.items()}), k)
            else:
                y = x.copy()
        except Exception:
            continue
        if y.ndim != x.ndim or len(y.blocks) != len(x.blocks):
            continue
        x = y
        done.append(h)
    return x, done


def union_refs(sr, a, b, axa, axb):
    """Reference layouts for embedding two operands whose contracted legs list different
    charges: each pair is embedded in the union of the two tables. -> (ref_a, ref_b)"""
    ra, rb = list(a.indices), list(b.indices)
    for i, j in zip(axa, axb):
        cm = dict(a.indices[i].chargemap)
        for c, d in b.indices[j].chargemap.items():
            assert cm.setdefault(c, d) == d
        cm = dict(sorted(cm.items()))
        ra[i] = sr.BlockIndex(cm, dual=a.indices[i].dual)
        rb[j] = sr.BlockIndex(cm, dual=b.indices[j].dual)
    return ra, rb


P_LIB_CONJ = 0.2
_conj_rng = __import__("random").Random(12345)


def conj_index(sr, ix):
    """Conjugate of an index. Usually a fresh harness-built index; in a share of the calls the
    library's own `ix.conj()` taken AFTER the index has been used as a cache key (its memoised
    hash key exists), as happens when a tensor is built on the legs of an earlier result."""
    if ix.subinfo is None:
        if P_LIB_CONJ and _conj_rng.random() < P_LIB_CONJ:
            ix.hashkey()
            return ix.conj()
        return sr.BlockIndex(dict(ix.chargemap), dual=not ix.dual)
    return ix.conj()


def pick_charge(rng, sym, indices, p_invalid=0.0):
    if rng.random() < p_invalid:
        return rng.choice(POOL[sym])
    sec = [rng.choice(list(ix.chargemap)) for ix in indices]
    return R.sector_charge(sym, sec, [ix.dual for ix in indices])


def all_sectors(sym, indices, charge):
    return R.valid_sectors(sym, [list(ix.chargemap) for ix in indices], [ix.dual for ix in indices], charge)


class Values:
    """Block value factory. mode: 'int' small non-zero integers (exact arithmetic),
    'unique' consecutive integers (each element identifiable), 'gauss'."""

    def __init__(self, rng, mode="int", dtype="float64"):
        self.np = np.random.default_rng(rng.getrandbits(63))
        self.mode = mode
        self.dtype = np.dtype(dtype)
        self.counter = 1

    def _real(self, shape):
        n = int(np.prod(shape, dtype=int))
        if self.mode == "unique":
            v = np.arange(self.counter, self.counter + n, dtype=float).reshape(shape)
            self.counter += n
            return v
        if self.mode == "int":
            v = self.np.integers(1, 5, size=shape).astype(float)
            return v * self.np.choice([-1.0, 1.0], size=shape)
        if self.mode == "signedzero":
            # unique positive ids mixed with +0.0 and -0.0 entries (bit patterns matter)
            v = np.arange(self.counter, self.counter + n, dtype=float).reshape(shape)
            self.counter += n
            r = self.np.random(size=shape)
            v = np.where(r < 0.2, 0.0, v)
            v = np.where(r < 0.1, -0.0, v)
            return v
        return self.np.normal(size=shape)

    def __call__(self, shape):
        shape = tuple(shape)
        v = self._real(shape)
        if self.dtype.kind == "c":
            v = v + 1j * self._real(shape)
        return np.array(v, dtype=self.dtype, order="C").reshape(shape)


def thin(rng, sectors, sparsity):
    """Drop each sector with probability `sparsity`, keeping at least one;
    sparsity == 'one' keeps exactly one."""
    sectors = list(sectors)
    if not sectors:
        return sectors
    if sparsity == "one":
        return [rng.choice(sectors)]
    keep = [s for s in sectors if rng.random() >= sparsity]
    if not keep:
        keep = [rng.choice(sectors)]
    return keep


SPARSITIES = (0.0, 0.0, 0.2, 0.5, 0.8, "one")


def as_label(kind, n):
    """The n-th label of a kind: ints, lattice-site-like tuples, or strings (order preserving
    within a kind; kinds are never mixed in one computation)."""
    if kind == "tuple":
        return (n // 100, n % 100)
    if kind == "str":
        return "s%07d" % n
    return n


def label_for(rng, kind="int"):
    if kind == "int":
        return rng.randint(1, 10**6)
    if kind == "tuple":
        return (rng.choice("ab"), rng.randint(0, 99))
    return "L%05d" % rng.randint(0, 99999)


def mix_block_dtypes(rng, blocks, ndtypes=None):
    """Blocks of one array in 2-4 different element types (as left behind by sums of arrays of
    different types with different stored sectors). Values are chosen so that ANY narrowing is
    visible: float64 / complex128 blocks get parts that float32 cannot hold, complex blocks a
    non-zero imaginary part. -> (new blocks dict, sorted list of dtype names)"""
    keys = list(blocks)
    if len(keys) < 2:
        return blocks, sorted({str(np.asarray(b).dtype) for b in blocks.values()})
    k = ndtypes or rng.choice([2, 2, 3, 3, 4])
    dts = rng.sample(["float32", "float64", "complex64", "complex128"], min(k, len(keys)))
    assign = dts + [rng.choice(dts) for _ in range(len(keys) - len(dts))]
    rng.shuffle(assign)
    out = {}
    for key, dt in zip(keys, assign):
        b = np.asarray(blocks[key])
        re = np.round(np.real(b)).astype("float64")
        if dt == "float32":
            v = re.astype("float32")
        elif dt == "float64":
            v = re + 1.0 / 3.0
        elif dt == "complex64":
            v = (re + 1j * (re % 5 + 1)).astype("complex64")
        else:
            v = (re + 1.0 / 3.0) + 1j * (re / 7.0 + 0.1)
        out[key] = np.ascontiguousarray(v)
    return out, sorted(set(assign))


def real_parts_in_some_blocks(rng, x):
    """Keep only the real part (as a REAL-typed block) of a non-empty proper subset of the
    stored blocks of a complex array, in place - the state `a + 1j * b` leaves behind when b
    lacks some of a's sectors. With probability 0.6 the first stored block is among them, so
    that array-level metadata read off the first block (`x.dtype`) says 'real' while later
    blocks are complex. -> True when the array now holds both kinds."""
    keys = list(x.blocks)
    if len(keys) < 2 or not any(np.iscomplexobj(x.blocks[k]) for k in keys):
        return False
    sub = set(rng.sample(keys, rng.randint(1, len(keys) - 1)))
    if rng.random() < 0.6:
        sub.add(keys[0])
        if len(sub) == len(keys):
            sub.discard(keys[-1])
    for k in sub:
        x.blocks[k] = np.ascontiguousarray(np.real(x.blocks[k]))
    return any(np.iscomplexobj(b) for b in x.blocks.values()) and not all(np.iscomplexobj(b) for b in x.blocks.values())


# probability that make_array hands the constructor an unusual but valid form of its inputs
EXOTIC = 0.06
EXOTIC_SEEN = {}


def exotic_form(sr, rng, sym, kw, fermionic):
    """Same tensor, unusual representation of the constructor arguments:
    - numpy integers as charge labels (the library's own utils.rand_index produces them),
    - block memory that is not C-contiguous (transposed / strided views),
    - explicitly stored trivial (+1) entries in the pending-sign table."""
    kinds = ["npint-labels", "strided-blocks", "stored-zero-block", "stored-zero-block"] + (["explicit-plus-one-signs"] * 2 if fermionic else [])
    if any(np.asarray(b).dtype.kind == "c" for b in kw["blocks"].values()):
        kinds.append("complex-with-zero-imaginary-part")
    kind = rng.choice(kinds)
    EXOTIC_SEEN[kind] = EXOTIC_SEEN.get(kind, 0) + 1
    kw = dict(kw)
    if kind == "npint-labels":
        conv = (lambda c: tuple(np.int64(v) for v in c)) if isinstance(kw["charge"], tuple) else (lambda c: np.int64(c))
        kw["indices"] = tuple(sr.BlockIndex({conv(c): d for c, d in ix.chargemap.items()}, dual=ix.dual) if ix.subinfo is None else ix for ix in kw["indices"])
        if all(ix.subinfo is None for ix in kw["indices"]):
            kw["blocks"] = {tuple(conv(c) for c in s_): b for s_, b in kw["blocks"].items()}
            kw["charge"] = conv(kw["charge"])
    elif kind == "strided-blocks":
        nb = {}
        for s_, b in kw["blocks"].items():
            b = np.asarray(b)
            if b.ndim >= 2 and rng.random() < 0.5:
                nb[s_] = np.asfortranarray(b)
            elif b.ndim >= 1 and b.shape[-1] >= 1:
                big = np.zeros(b.shape[:-1] + (2 * b.shape[-1],), dtype=b.dtype)
                big[..., ::2] = b
                nb[s_] = big[..., ::2]
            else:
                nb[s_] = b
        kw["blocks"] = nb
    elif kind == "stored-zero-block":
        # a stored block that is identically zero (as left by fill_missing_blocks, x - x, ...)
        secs = list(kw["blocks"])
        if len(secs) >= 2:
            nb = dict(kw["blocks"])
            for s_ in rng.sample(secs, rng.randint(1, max(1, len(secs) // 3))):
                nb[s_] = np.zeros_like(np.asarray(nb[s_]))
            kw["blocks"] = nb
    elif kind == "complex-with-zero-imaginary-part":
        kw["blocks"] = {s_: (np.asarray(b).real.astype(np.asarray(b).dtype) if np.asarray(b).dtype.kind == "c" else b) for s_, b in kw["blocks"].items()}
    else:
        secs = list(kw["blocks"])
        if secs:
            kw["phases"] = {s_: 1 for s_ in rng.sample(secs, rng.randint(1, len(secs)))}
    return kw


def make_array(
    sr,
    rng,
    sym,
    indices,
    charge=None,
    fermionic=False,
    kind=None,
    sparsity=None,
    values=None,
    label=None,
    nphase=None,
    shuffle_blocks=True,
    exotic=True,
):
    """Build an array of the library through its plain constructor from harness-made
    blocks. Returns the array. `values` is a Values factory."""
    indices = tuple(indices)
    if charge is None:
        charge = pick_charge(rng, sym, indices)
    if values is None:
        values = Values(rng)
    if sparsity is None:
        sparsity = rng.choice(SPARSITIES)
    secs = thin(rng, all_sectors(sym, indices, charge), sparsity)
    if shuffle_blocks:
        rng.shuffle(secs)
    blocks = {s: values(tuple(ix.chargemap[c] for ix, c in zip(indices, s))) for s in secs}
    cls, extra, kind = pick_class(sr, rng, sym, fermionic, kind)
    kw = dict(indices=indices, charge=charge, blocks=blocks, **extra)
    if fermionic:
        if R.par(sym, charge):
            kw["oddpos"] = label if label is not None else label_for(rng)
    if EXOTIC and exotic and rng.random() < EXOTIC:
        kw = exotic_form(sr, rng, sym, kw, fermionic)
    x = cls(**kw)
    if fermionic:
        if nphase is None:
            nphase = rng.choice([0, 0, 1, 2, 3])
        add_phases(rng, x, nphase)
        if EXOTIC and exotic and x.ndim and len(x.blocks) >= 2 and rng.random() < EXOTIC:
            x = dormant_signs(sr, rng, x)
    return x


def dormant_signs(sr, rng, x):
    """Remove the blocks of one charge of one axis through a public operation that does not
    synchronise (multiply_diagonal by a vector of ones that lacks that charge): pending signs
    of the removed sectors stay behind in the table, naming blocks that no longer exist."""
    ax = rng.randrange(x.ndim)
    cm = x.indices[ax].chargemap
    if len(cm) < 2:
        return x
    gone = rng.choice(sorted(cm))
    dt = np.asarray(next(iter(x.blocks.values()))).dtype
    v = sr.BlockVector({c: np.ones(d, dtype=dt) for c, d in cm.items() if c != gone})
    try:
        y = x.multiply_diagonal(v, ax)
    except Exception:
        return x
    if not y.blocks:
        return x
    EXOTIC_SEEN["dormant-signs"] = EXOTIC_SEEN.get("dormant-signs", 0) + 1
    return y


def add_phases(rng, x, n):
    """Create pending signs through public in-place operations only."""
    for _ in range(n):
        if not x.ndim:
            k = 2
        else:
            k = rng.randint(0, 2)
        if k == 0:
            x.phase_flip(*rng.sample(range(x.ndim), rng.randint(1, x.ndim)), inplace=True)
        elif k == 1:
            x.phase_transpose(tuple(rng.sample(range(x.ndim), x.ndim)), inplace=True)
        else:
            x.phase_global(inplace=True)
    return x


def rand_array(sr, rng, sym=None, ndim=None, fermionic=False, maxnd=4, **kw):
    if sym is None:
        sym = rng.choice(SYMS5)
    if ndim is None:
        ndim = rng.randint(0 if kw.pop("allow0", False) else 1, maxnd)
    maxc = kw.pop("maxc", 3)
    maxd = kw.pop("maxd", 3)
    p_many = kw.pop("many_legs_p", 0.0)
    if p_many and rng.random() < p_many:
        # 6-8 legs with two charges of size one each (a sector can hold 6-8 odd charges)
        ndim = rng.randint(6, 8)
        idx = [rand_index(sr, rng, sym, maxc=2, maxd=1, p_single=0.0, minc=2) for _ in range(ndim)]
        EXOTIC_SEEN["six-or-more-legs"] = EXOTIC_SEEN.get("six-or-more-legs", 0) + 1
        return make_array(sr, rng, sym, idx, fermionic=fermionic, **kw)
    idx = [rand_index(sr, rng, sym, maxc=maxc, maxd=maxd) for _ in range(ndim)]
    share_index_objects(rng, idx)
    return make_array(sr, rng, sym, idx, fermionic=fermionic, **kw)


P_SHARED_INDEX = 0.08


def share_index_objects(rng, idx, protect=()):
    """In a share of the calls put ONE index object on two (or three) legs - as happens when a
    user builds a tensor from `[ix] * n` or reuses a bond index. `protect`: positions to leave."""
    free = [k for k in range(len(idx)) if k not in protect]
    if len(free) >= 2 and rng.random() < P_SHARED_INDEX:
        ks = rng.sample(free, min(len(free), rng.choice([2, 2, 3])))
        for k in ks[1:]:
            idx[k] = idx[ks[0]]
        EXOTIC_SEEN["shared-index-object"] = EXOTIC_SEEN.get("shared-index-object", 0) + 1
    return idx


def contractible_pair(sr, rng, sym, fermionic, na=None, nb=None, ncon=None, maxnd=3, values=None, **kw):
    """Two arrays with `ncon` matching (conjugate) index pairs at random positions.
    -> a, b, axes_a, axes_b"""
    def _nd():
        return rng.randint(0, maxnd) if rng.random() < 0.15 else rng.randint(1, maxnd)

    na = _nd() if na is None else na
    nb = _nd() if nb is None else nb
    if ncon is None:
        m = min(na, nb)
        ncon = 0 if (m == 0 or rng.random() < 0.12) else rng.randint(1, m)
    maxc = kw.pop("maxc", 3)
    maxd = kw.pop("maxd", 3)
    ikw = {k: kw.pop(k) for k in ("minc", "p_single") if k in kw}
    ia = [rand_index(sr, rng, sym, maxc=maxc, maxd=maxd, **ikw) for _ in range(na)]
    share_index_objects(rng, ia)
    axes_a = rng.sample(range(na), ncon)
    axes_b = rng.sample(range(nb), ncon)
    ib = [None] * nb
    for x_, y_ in zip(axes_a, axes_b):
        ib[y_] = conj_index(sr, ia[x_])
    ib = [rand_index(sr, rng, sym, maxc=maxc, maxd=maxd, **ikw) if v is None else v for v in ib]
    p_ragged = kw.pop("p_ragged", 0.0)
    if p_ragged:
        # the two ends of a contracted leg need not list the same charges (only agree on the
        # sizes of those they share): drop a charge on one end, add an unshared one on an end
        for x_, y_ in zip(axes_a, axes_b):
            if rng.random() >= p_ragged:
                continue
            ca, cb = dict(ia[x_].chargemap), dict(ib[y_].chargemap)
            tgt = ca if rng.random() < 0.5 else cb
            if len(tgt) >= 2 and rng.random() < 0.7:
                del tgt[rng.choice(sorted(tgt))]
            if rng.random() < 0.4:
                free = [c for c in POOL[sym] if c not in ca and c not in cb]
                if free:
                    (ca if rng.random() < 0.5 else cb)[rng.choice(free)] = rng.randint(1, maxd)
            ia[x_] = sr.BlockIndex(dict(sorted(ca.items())), dual=ia[x_].dual)
            ib[y_] = sr.BlockIndex(dict(sorted(cb.items())), dual=ib[y_].dual)
    values = values or Values(rng)
    kind = kw.pop("kind", None)
    if kind is None:
        # both operands must be of the same class
        _, _, kind = pick_class(sr, rng, sym, fermionic)
    la = kw.pop("label_a", None)
    lb = kw.pop("label_b", None)
    label_kind = kw.pop("label_kind", "int")
    if fermionic and la is None:
        la, lb = rng.sample(range(1, 1000), 2)
        la, lb = as_label(label_kind, la), as_label(label_kind, lb)
    p_hist = kw.pop("p_hist", 0.0)
    p_mixclass = kw.pop("p_mixclass", 0.0)
    kind_b = kind
    if p_mixclass and sym != "Z4" and rng.random() < p_mixclass:
        # a fixed-symmetry class and the generic class (same symmetry) in one call
        kind_b = rng.choice([k for k in ("static", "generic_str", "generic_obj") if (k == "static") != (kind == "static")])
    a = make_array(sr, rng, sym, ia, fermionic=fermionic, values=values, kind=kind, label=la, **kw)
    b = make_array(sr, rng, sym, ib, fermionic=fermionic, values=values, kind=kind_b, label=lb, **kw)
    if p_hist and rng.random() < p_hist:
        a, _ = identity_history(sr, rng, a)
    if p_hist and rng.random() < p_hist:
        b, _ = identity_history(sr, rng, b)
    return a, b, axes_a, axes_b


def rand_matrix(sr, rng, sym, fermionic, charge="random", maxc=3, maxd=4, values=None, square=False, **kw):
    """Random 2D array, possibly with zero total charge and conj-matching indices (square)."""
    r = rand_index(sr, rng, sym, maxc=maxc, maxd=maxd, p_single=0.05)
    if square:
        c = conj_index(sr, r)
        charge = R.identity(sym)
    else:
        c = rand_index(sr, rng, sym, maxc=maxc, maxd=maxd, p_single=0.05)
        if charge == "random":
            charge = None
    return make_array(sr, rng, sym, [r, c], charge=charge, fermionic=fermionic, values=values, **kw)


def perms(n):
    return list(itertools.permutations(range(n)))
