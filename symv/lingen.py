"""Matrix generators for the linear-algebra checks (C11-C13, C20)."""
import numpy as np

from . import gen
from . import refsym as R


P_INTEGER = 0.04
SHARED_SEEN = [0]  # how often one ndarray object was stored under several sectors


def _lowrank(npr, shape, dtype, rank):
    m, n = shape
    r = max(1, min(rank, m, n))
    a = npr.normal(size=(m, r))
    b = npr.normal(size=(r, n))
    if np.dtype(dtype).kind == "c":
        a = a + 1j * npr.normal(size=(m, r))
        b = b + 1j * npr.normal(size=(r, n))
    return (a @ b).astype(dtype)


def structured_blocks(rng, npr, x, dtype):
    """Give the square blocks of x an exact structure (the kind of input a shortcut might
    special-case): symmetric, complex symmetric (NOT hermitian), hermitian, diagonal, diagonal
    of phases, triangular, orthogonal / unitary, constant. -> name of the structure or None"""
    cplx = np.dtype(dtype).kind == "c"
    st = rng.choice(["symmetric", "symmetric", "hermitian", "diagonal", "phases", "triangular", "unitary", "constant", "antisymmetric", "integer-diagonal", "integer-diagonal", "same-block-in-every-sector", "same-block-in-every-sector", "same-block-in-every-sector", "near-tie-diagonal", "null-rows-or-columns", "null-rows-or-columns"])
    if st == "same-block-in-every-sector":
        # bit-identical singular values in different charge sectors
        shapes = {}
        for s_, b in x.blocks.items():
            shapes.setdefault(np.asarray(b).shape, []).append(s_)
        done = False
        for shp, secs in shapes.items():
            if len(secs) >= 2:
                # equal copies, or (half the time) the very same ndarray OBJECT under several
                # sectors, as in blocks={(0, 0): a, (1, 1): a}
                share = rng.random() < 0.5
                for s_ in secs[1:]:
                    x.blocks[s_] = x.blocks[secs[0]] if share else np.array(x.blocks[secs[0]])
                if share:
                    SHARED_SEEN[0] += 1
                done = True
        return st if done else None
    done = False
    if st == "null-rows-or-columns":
        # identically zero rows / columns inside otherwise generic blocks of any shape (what
        # multiplying by a 0/1 diagonal, or an operator that annihilates some states, leaves)
        for s_, b in list(x.blocks.items()):
            b = np.array(b)
            if b.ndim != 2 or min(b.shape) < 2:
                continue
            if rng.random() < 0.7:
                b[rng.sample(range(b.shape[0]), rng.randint(1, max(1, b.shape[0] // 2)))] = 0
            if rng.random() < 0.5:
                b[:, rng.sample(range(b.shape[1]), rng.randint(1, max(1, b.shape[1] // 2)))] = 0
            x.blocks[s_] = b
            done = True
        return st if done else None
    for s_, b in list(x.blocks.items()):
        b = np.asarray(b)
        if b.ndim != 2 or b.shape[0] != b.shape[1]:
            continue
        n = b.shape[0]
        if st == "symmetric":
            v = b + b.T  # complex: symmetric but not hermitian
        elif st == "antisymmetric":
            v = b - b.T
        elif st == "hermitian":
            v = b + b.conj().T
        elif st == "integer-diagonal":
            # exactly repeated singular values (4, 4, 3, 2, 1, 1, ...)
            v = np.diag(npr.choice([1.0, 1.0, 2.0, 3.0, 4.0, 4.0], size=n)).astype(b.dtype)
        elif st == "near-tie-diagonal":
            # distinct values a few 1e-13 apart (relative): no tie, but closer than any
            # "robustness" tolerance should be allowed to blur
            base_ = npr.choice([0.6, 1.0, 2.5, 4.0], size=n)
            v = np.diag(base_ * (1.0 - 3e-13 * npr.integers(0, 4, size=n))).astype(b.dtype)
        elif st == "diagonal":
            v = np.diag(np.diag(b))
        elif st == "phases":
            v = np.diag(np.exp(1j * npr.uniform(0, 2 * np.pi, size=n))) if cplx else np.diag(npr.choice([-1.0, 1.0], size=n))
        elif st == "triangular":
            v = np.triu(b)
        elif st == "unitary":
            v = np.linalg.qr(b)[0] if n else b
        else:
            v = np.full_like(b, b.reshape(-1)[0] if b.size else 1.0)
        x.blocks[s_] = np.ascontiguousarray(v.astype(b.dtype))
        done = True
    return st if done else None


def rand_matrix(ctx, rng, sym=None, fermionic=None, kind=None, dtype=None, square=False, uniform=False, min_charges=1, nphase=None, sparsity=None, max_charges=3):
    """-> (x, features:set). kind in direct|fused|deficient."""
    sr = ctx.sr
    sym = sym or gen.pick_sym(rng)
    if fermionic is None:
        fermionic = rng.random() < 0.5
    kind = kind or rng.choice(["direct", "direct", "fused", "deficient"])
    dtype = dtype or rng.choice(["float64", "float64", "complex128"])
    feats = {kind}
    vals = gen.Values(rng, "gauss", dtype)
    npr = vals.np
    if sparsity is None:
        sparsity = rng.choice([0.0, 0.0, 0.25, 0.5])
    if kind == "fused" and not square:
        nd = rng.choice([3, 3, 4])
        x0 = gen.rand_array(sr, rng, sym, ndim=nd, fermionic=fermionic, values=vals, maxd=2, maxc=3 if nd == 3 else 2, nphase=0, sparsity=sparsity)
        axes = list(range(nd))
        rng.shuffle(axes)
        k = rng.randint(1, nd - 1)
        o = ctx.call(lambda: x0.fuse(tuple(axes[:k]), tuple(axes[k:])))
        if not o.ok:
            return None, feats
        x = o.value
        if x.ndim != 2:
            return None, feats
    else:
        maxd = rng.choice([2, 3, 5])
        if not uniform and rng.random() < 0.06:
            # a few large sectors (16..24): beyond any small-block special-casing
            maxd = 24
            max_charges = min(max_charges, 2)
            feats.add("large-blocks")
        if uniform:
            d = rng.randint(1, 4)
            pool = gen.POOL[sym]
            cs = rng.sample(pool, rng.randint(min(min_charges, len(pool)), min(3, len(pool))))
            r = sr.BlockIndex({c: d for c in cs}, dual=rng.random() < 0.5)
            cs2 = rng.sample(pool, rng.randint(min(min_charges, len(pool)), min(3, len(pool))))
            c = sr.BlockIndex({c_: d for c_ in cs2}, dual=rng.random() < 0.5)
        else:
            mind = 16 if maxd == 24 else 1
            r = gen.rand_index(sr, rng, sym, maxc=max_charges, maxd=maxd, mind=mind, p_single=0.03, minc=min(min_charges, max_charges))
            c = gen.rand_index(sr, rng, sym, maxc=max_charges, maxd=maxd, mind=mind, p_single=0.03, minc=min(min_charges, max_charges))
        if square:
            c = gen.conj_index(sr, r)
            charge = R.identity(sym)
        else:
            charge = None
        x = gen.make_array(sr, rng, sym, [r, c], charge=charge, fermionic=fermionic, values=vals, sparsity=sparsity, nphase=0)
        if kind == "direct" and rng.random() < 0.12:
            st = structured_blocks(rng, npr, x, dtype)
            if st:
                feats.add("structured-blocks")
                feats.add("structure:" + st)
        if kind == "direct" and not square and not uniform and rng.random() < 0.05:
            # very elongated blocks (aspect >= 16) with a prescribed, badly conditioned spectrum
            short = rng.randint(2, 3)
            long_ = rng.randint(16 * short, 20 * short)
            cch = rng.choice(gen.POOL[sym])
            tall = rng.random() < 0.5
            r2 = sr.BlockIndex({cch: long_ if tall else short}, dual=r.dual)
            c2 = sr.BlockIndex({cch: short if tall else long_}, dual=not r.dual)
            x = gen.make_array(sr, rng, sym, [r2, c2], charge=R.identity(sym), fermionic=fermionic, values=vals, sparsity=0.0, nphase=0, exotic=False)
            for s_, b in list(x.blocks.items()):
                b = np.asarray(b)
                u_, _, vh_ = np.linalg.svd(b, full_matrices=False)
                spec = np.array([2.0, 5e-9, 3e-12][:short]) * rng.choice([1.0, 1e3, 1e-3])
                x.blocks[s_] = ((u_ * spec) @ vh_).astype(b.dtype)
            feats.add("elongated-ill-conditioned-block")
        if kind == "deficient":
            for s, b in list(x.blocks.items()):
                if min(b.shape) >= 2 and rng.random() < 0.7:
                    x.blocks[s] = _lowrank(npr, b.shape, dtype, rng.randint(1, min(b.shape) - 1))
                    feats.add("rank-deficient-block")
    if fermionic and kind == "direct" and not square and not uniform and rng.random() < 0.08:
        # a matrix that carries TWO odd labels: the product of two odd-parity matrices
        k_ = gen.rand_index(sr, rng, sym, maxc=3, maxd=3, p_single=0.0, minc=2)
        odd = [c_ for c_ in gen.POOL[sym] if R.par(sym, c_)]
        try:
            A = gen.make_array(sr, rng, sym, [x.indices[0], k_], charge=rng.choice(odd), fermionic=True, values=vals, sparsity=0.0, nphase=0, label=rng.randint(1, 40), exotic=False)
            B = gen.make_array(sr, rng, sym, [gen.conj_index(sr, k_), x.indices[1]], charge=rng.choice(odd), fermionic=True, values=vals, sparsity=0.0, nphase=0, label=rng.randint(41, 80), exotic=False)
            P = sr.tensordot(A, B, axes=([1], [0]), preserve_array=True)
            if P.blocks and len(getattr(P, "oddpos", ())) == 2:
                x = P
                feats.add("two-label-matrix")
        except Exception:
            pass
    if np.dtype(dtype).kind == "f" and kind != "fused" and "elongated-ill-conditioned-block" not in feats and rng.random() < P_INTEGER:
        # integer-typed blocks (hand-written hopping / adjacency / counting operators)
        idt = rng.choice([np.int64, np.int64, np.int32])
        for s_, b in list(x.blocks.items()):
            x.blocks[s_] = np.clip(np.rint(np.asarray(b) * 2.0), -100, 100).astype(idt)
        feats.add("integer-typed-blocks")
    if rng.random() < 0.08:
        x, hist_ = gen.identity_history(sr, rng, x)
        if hist_:
            feats.add("matrix-with-history")
    if fermionic:
        if nphase is None:
            nphase = rng.choice([0, 1, 2])
        gen.add_phases(rng, x, nphase)
        if any(v == -1 for v in x.phases.values()):
            feats.add("pending-signs")
    shapes = {np.asarray(b).shape for b in x.blocks.values()}
    if len(shapes) >= 2:
        feats.add("blocks-of-different-shapes")
    if any(s[0] > s[1] for s in shapes):
        feats.add("tall")
    if any(s[0] < s[1] for s in shapes):
        feats.add("wide")
    if len(x.blocks) < len(gen.all_sectors(sym, x.indices, x.charge)):
        feats.add("missing-blocks")
    if np.dtype(dtype).kind == "c":
        feats.add("complex")
    feats.add("fermionic" if fermionic else "abelian")
    return x, feats


def hermitian_matrix(ctx, rng, sym=None, fermionic=None, dtype=None):
    """Block-hermitian charge-zero square matrix (blocks symmetrised by the harness)."""
    sr = ctx.sr
    x, feats = rand_matrix(ctx, rng, sym, fermionic, kind="direct", dtype=dtype, square=True, nphase=0)
    for s, b in list(x.blocks.items()):
        x.blocks[s] = (b + b.conj().T) / 2
    if np.iscomplexobj(next(iter(x.blocks.values()))) and len(x.blocks) >= 2 and rng.random() < 0.3:
        # blocks of mixed dtype (as produced by real + complex): some blocks real symmetric
        keys = list(x.blocks)
        for s in keys[: rng.randint(1, len(keys) - 1)]:
            x.blocks[s] = np.ascontiguousarray(x.blocks[s].real)
        feats.add("mixed-dtype-blocks")
    if "integer-typed-blocks" in feats or (not np.iscomplexobj(next(iter(x.blocks.values()))) and rng.random() < P_INTEGER):
        # symmetric integer-typed blocks (bool now and then: adjacency matrices)
        idt = rng.choice([np.int64, np.int64, np.int32] + ([] if getattr(x, "fermionic", False) else [np.bool_]))
        for s in list(x.blocks):
            b = np.rint(np.asarray(x.blocks[s], dtype="float64") * 2.0)
            x.blocks[s] = (b != 0) if idt is np.bool_ else np.clip(b, -100, 100).astype(idt)
        feats.add("integer-typed-blocks")
    if getattr(x, "fermionic", False) and rng.random() < 0.5:
        x.phase_transpose((1, 0), inplace=True)  # pending signs on odd-odd blocks, still hermitian
        if any(v == -1 for v in x.phases.values()):
            feats.add("pending-signs")
    return x, feats
