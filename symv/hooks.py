"""Internal hooks installed by monkeypatching from the harness (no repository edits).

H1  abelian_core.cached_fuse_block_info : returned plan == freshly computed plan
H2  lru_cache'd pure helpers            : cached result == __wrapped__(*args)
H3  module globals (default mode, cache size) read / written at quiescent points
"""
import functools

from .dense import index_sig


def plan_sig(plan):
    (num_groups, group_singlets, perm, position, axes_before, axes_after, new_axes, new_indices, blockmap) = plan
    return (
        num_groups,
        tuple(group_singlets),
        tuple(perm),
        position,
        tuple(axes_before),
        tuple(axes_after),
        tuple(sorted(new_axes.items())),
        tuple(index_sig(ix) for ix in new_indices),
        tuple(sorted(((k, v) for k, v in blockmap.items()), key=repr)),
    )


class Hooks:
    def __init__(self, ctx):
        self.ctx = ctx
        self.sr = ctx.sr
        import symmray.abelian_core as ac
        import symmray.fermionic_core as fc
        import symmray.linalg as la
        import symmray.symmetries as sy

        self.ac, self.fc, self.la, self.sy = ac, fc, la, sy
        self.installed = []

    # ---- H1 ----------------------------------------------------------------------------
    def install_plan_hook(self, on_violation=None):
        ac = self.ac
        ctx = self.ctx
        orig = ac.cached_fuse_block_info
        raw_group = getattr(ac.calc_fuse_group_info, "__wrapped__", ac.calc_fuse_group_info)

        @functools.wraps(orig)
        def wrapped(arr, axes_groups):
            hit0 = ac._fi_hit
            res = orig(arr, axes_groups)
            was_hit = ac._fi_hit > hit0
            saved = ac.calc_fuse_group_info
            ac.calc_fuse_group_info = raw_group
            try:
                fresh = ac.calc_fuse_block_info(arr, axes_groups)
            finally:
                ac.calc_fuse_group_info = saved
            ctx.count("hook", "plan-compared")
            if was_hit:
                ctx.count("hook", "plan-cache-hit")
            if plan_sig(res) != plan_sig(fresh):
                a, b = plan_sig(res), plan_sig(fresh)
                names = ["num_groups", "group_singlets", "perm", "position", "axes_before", "axes_after", "new_axes", "new_indices", "blockmap"]
                which = [n for n, x, y in zip(names, a, b) if x != y]
                msg = f"cached fuse plan differs from a fresh computation in {which} (cache hit={was_hit}); groups={axes_groups}"
                if on_violation:
                    on_violation(msg, arr, axes_groups)
                else:
                    from .dense import describe

                    ctx.violation("stale-fuse-plan", msg, {"array": describe(arr), "groups": repr(axes_groups)})
            return res

        ac.cached_fuse_block_info = wrapped
        self.installed.append((ac, "cached_fuse_block_info", orig))

    # ---- H2 ----------------------------------------------------------------------------
    def install_lru_hooks(self):
        ctx = self.ctx
        targets = [
            (self.ac, "calc_reshape_args"),
            (self.ac, "calc_fuse_group_info"),
            (self.sy, "sign_scalar"),
            (self.sy, "sign_tuple"),
            (self.sy, "get_symmetry"),
            (self.sy, "calc_phase_permutation"),
            (self.la, "calc_sub_max_bonds"),
        ]
        for mod, name in targets:
            fn = getattr(mod, name)
            raw = getattr(fn, "__wrapped__", None)
            if raw is None:
                continue

            def make(fn, raw, name):
                @functools.wraps(fn)
                def wrapped(*a, **k):
                    res = fn(*a, **k)
                    try:
                        fresh = raw(*a, **k)
                    except Exception:
                        return res
                    ctx.count("hook", f"lru:{name}")
                    same = (res == fresh) if name != "get_symmetry" else (type(res) is type(fresh))
                    if not same:
                        ctx.violation("stale-lru-result", f"{name}{a!r}: cached {res!r} != recomputed {fresh!r}", {"fn": name, "args": repr(a)})
                    return res

                wrapped.cache_clear = fn.cache_clear
                wrapped.cache_info = fn.cache_info
                wrapped.__wrapped__ = raw
                return wrapped

            w = make(fn, raw, name)
            setattr(mod, name, w)
            self.installed.append((mod, name, fn))
            # other modules that bound the name at import time
            for other in (self.ac, self.fc, self.la):
                if other is not mod and getattr(other, name, None) is fn:
                    setattr(other, name, w)
                    self.installed.append((other, name, fn))

    def uninstall(self):
        for mod, name, orig in reversed(self.installed):
            setattr(mod, name, orig)
        self.installed = []

    # ---- H3 ----------------------------------------------------------------------------
    def set_cache(self, maxsize=None, maxsectors=None, clear=False):
        if maxsize is not None:
            self.ac._fuseinfo_cache_maxsize = maxsize
        if maxsectors is not None:
            self.ac._fuseinfo_cache_maxsectors = maxsectors
        if clear:
            self.ac._fuseinfos.clear()
        while len(self.ac._fuseinfos) > max(self.ac._fuseinfo_cache_maxsize, 0):
            self.ac._fuseinfos.popitem(last=False)

    def clear_all_caches(self):
        self.ac._fuseinfos.clear()
        for mod, name in [(self.ac, "calc_reshape_args"), (self.ac, "calc_fuse_group_info"), (self.sy, "sign_scalar"), (self.sy, "sign_tuple"), (self.sy, "calc_phase_permutation"), (self.la, "calc_sub_max_bonds")]:
            getattr(mod, name).cache_clear()

    def default_mode(self):
        return self.ac._DEFAULT_TENSORDOT_MODE

    def cache_len(self):
        return len(self.ac._fuseinfos)
