"""Internal hooks installed by monkeypatching from the harness (no repository edits).

H1  abelian_core.cached_fuse_block_info : returned plan == freshly computed plan
H2  lru_cache'd pure helpers            : cached result == __wrapped__(*args)
H3  module globals (default mode, cache size) read / written at quiescent points
"""
import functools

from .dense import index_sig


def plan_sig(plan):
    (num_groups, group_singlets, perm, position, axes_before, axes_after, new_axes, new_indices, blockmap) = plan
    return (
        num_groups,
        tuple(group_singlets),
        tuple(perm),
        position,
        tuple(axes_before),
        tuple(axes_after),
        tuple(sorted(new_axes.items())),
        tuple(index_sig(ix) for ix in new_indices),
        tuple(sorted(((k, v) for k, v in blockmap.items()), key=repr)),
    )


class Hooks:
    def __init__(self, ctx):
        self.ctx = ctx
        self.sr = ctx.sr
        import symmray.abelian_core as ac
        import symmray.fermionic_core as fc
        import symmray.linalg as la
        import symmray.symmetries as sy

        self.ac, self.fc, self.la, self.sy = ac, fc, la, sy
        self.installed = []
        # internals a hook needs but the library (after a refactoring) no longer has: the hook
        # is then skipped and counted, the black-box monitors go on
        self.unavailable = set()

    def _missing(self, what):
        self.unavailable.add(what)
        self.ctx.count("hook_unavailable", what)

    # ---- H1 ----------------------------------------------------------------------------
    def install_plan_hook(self, on_violation=None):
        ac = self.ac
        ctx = self.ctx
        if not all(hasattr(ac, n) for n in ("cached_fuse_block_info", "calc_fuse_group_info", "calc_fuse_block_info")):
            self._missing("plan-hook")
            return
        orig = ac.cached_fuse_block_info
        raw_group = getattr(ac.calc_fuse_group_info, "__wrapped__", ac.calc_fuse_group_info)

        @functools.wraps(orig)
        def wrapped(arr, axes_groups):
            hit0 = getattr(ac, "_fi_hit", 0)
            res = orig(arr, axes_groups)
            was_hit = getattr(ac, "_fi_hit", 0) > hit0
            saved = ac.calc_fuse_group_info
            ac.calc_fuse_group_info = raw_group
            try:
                fresh = ac.calc_fuse_block_info(arr, axes_groups)
                a, b = plan_sig(res), plan_sig(fresh)
            except Exception:
                # the internals no longer look the way this hook assumes: no verdict from it
                ctx.count("hook_unavailable", "plan-compare-failed")
                return res
            finally:
                ac.calc_fuse_group_info = saved
            ctx.count("hook", "plan-compared")
            if was_hit:
                ctx.count("hook", "plan-cache-hit")
            if a != b:
                names = ["num_groups", "group_singlets", "perm", "position", "axes_before", "axes_after", "new_axes", "new_indices", "blockmap"]
                which = [n for n, x, y in zip(names, a, b) if x != y]
                msg = f"cached fuse plan differs from a fresh computation in {which} (cache hit={was_hit}); groups={axes_groups}"
                if on_violation:
                    on_violation(msg, arr, axes_groups)
                else:
                    from .dense import describe

                    ctx.violation("stale-fuse-plan", msg, {"array": describe(arr), "groups": repr(axes_groups)})
            return res

        ac.cached_fuse_block_info = wrapped
        self.installed.append((ac, "cached_fuse_block_info", orig))

    # ---- H2 ----------------------------------------------------------------------------
    def install_lru_hooks(self):
        ctx = self.ctx
        targets = [
            (self.ac, "calc_reshape_args"),
            (self.ac, "calc_fuse_group_info"),
            (self.sy, "sign_scalar"),
            (self.sy, "sign_tuple"),
            (self.sy, "get_symmetry"),
            (self.sy, "calc_phase_permutation"),
            (self.la, "calc_sub_max_bonds"),
        ]
        for mod, name in targets:
            fn = getattr(mod, name, None)
            raw = getattr(fn, "__wrapped__", None)
            if fn is None or raw is None or not hasattr(fn, "cache_clear"):
                self._missing(f"lru:{name}")
                continue

            def make(fn, raw, name):
                @functools.wraps(fn)
                def wrapped(*a, **k):
                    res = fn(*a, **k)
                    try:
                        fresh = raw(*a, **k)
                    except Exception:
                        return res
                    ctx.count("hook", f"lru:{name}")
                    same = (res == fresh) if name != "get_symmetry" else (type(res) is type(fresh))
                    if not same:
                        ctx.violation("stale-lru-result", f"{name}{a!r}: cached {res!r} != recomputed {fresh!r}", {"fn": name, "args": repr(a)})
                    return res

                wrapped.cache_clear = fn.cache_clear
                wrapped.cache_info = fn.cache_info
                wrapped.__wrapped__ = raw
                return wrapped

            w = make(fn, raw, name)
            setattr(mod, name, w)
            self.installed.append((mod, name, fn))
            # other modules that bound the name at import time
            for other in (self.ac, self.fc, self.la):
                if other is not mod and getattr(other, name, None) is fn:
                    setattr(other, name, w)
                    self.installed.append((other, name, fn))

    def uninstall(self):
        for mod, name, orig in reversed(self.installed):
            setattr(mod, name, orig)
        self.installed = []

    # ---- H3 ----------------------------------------------------------------------------
    def set_cache(self, maxsize=None, maxsectors=None, clear=False):
        if not all(hasattr(self.ac, n) for n in ("_fuseinfos", "_fuseinfo_cache_maxsize", "_fuseinfo_cache_maxsectors")):
            self._missing("cache-globals")
            return
        if maxsize is not None:
            self.ac._fuseinfo_cache_maxsize = maxsize
        if maxsectors is not None:
            self.ac._fuseinfo_cache_maxsectors = maxsectors
        if clear:
            self.ac._fuseinfos.clear()
        while len(self.ac._fuseinfos) > max(self.ac._fuseinfo_cache_maxsize, 0):
            self.ac._fuseinfos.popitem(last=False)

    def clear_all_caches(self):
        if hasattr(self.ac, "_fuseinfos"):
            self.ac._fuseinfos.clear()
        else:
            self._missing("cache-globals")
        for mod, name in [(self.ac, "calc_reshape_args"), (self.ac, "calc_fuse_group_info"), (self.sy, "sign_scalar"), (self.sy, "sign_tuple"), (self.sy, "calc_phase_permutation"), (self.la, "calc_sub_max_bonds")]:
            cc = getattr(getattr(mod, name, None), "cache_clear", None)
            if cc is not None:
                cc()

    def default_mode(self):
        if hasattr(self.ac, "_DEFAULT_TENSORDOT_MODE"):
            return self.ac._DEFAULT_TENSORDOT_MODE
        return self.sr.get_default_tensordot_mode()

    def cache_len(self):
        return len(getattr(self.ac, "_fuseinfos", ()))


# ---- key-collision hunt ------------------------------------------------------------------
def key_collision_hunt(ctx, hooks, rng, ncalls):
    """Stress the fuse-plan cache KEY, not the plans: issue `ncalls` cache look-ups for distinct
    (array, grouping) arguments with the plan computation stubbed out, while a recorder on the
    library's key digest function remembers digest -> key material. Two different key materials
    with one digest are a latent false cache hit; each such pair is then replayed for real
    (cold cache, first grouping, second grouping) under the plan hook, which compares the plan
    handed out with a fresh computation. -> (look-ups, collisions found, collisions replayed)"""
    import itertools
    import pickle

    from . import gen

    ac = hooks.ac
    sr = ctx.sr
    nd = 7
    if not all(hasattr(ac, n) for n in ("hasher", "calc_fuse_block_info", "cached_fuse_block_info", "_fuseinfos", "_fuseinfo_cache_maxsize")):
        hooks._missing("key-collision-hunt")
        return None

    def new_subject():
        sym = rng.choice(["Z2", "Z2", "U1", "Z2Z2"])
        idx = [gen.rand_index(sr, rng, sym, maxc=2, maxd=2, p_single=0.0, minc=2) for _ in range(nd)]
        return gen.make_array(sr, rng, sym, idx, fermionic=rng.random() < 0.3, values=gen.Values(rng, "int"), sparsity=rng.choice([0.3, 0.5, 0.7]), exotic=False)

    x = new_subject()
    subjects = [x]
    seen = {}
    collisions = []
    orig_hasher = ac.hasher

    def recorder(k):
        d = orig_hasher(k)
        try:
            mat = pickle.dumps(k)
        except Exception:
            return d
        prev = seen.get(d)
        if prev is None:
            seen[d] = (mat, (subjects[-1], k[-1]) if isinstance(k, tuple) and len(k) == 4 else None)
        elif prev[0] != mat and prev[1] is not None and isinstance(k, tuple) and len(k) == 4:
            collisions.append((prev[1], (subjects[-1], k[-1])))
        return d

    orig_calc = ac.calc_fuse_block_info
    SENT = ("stub",)
    saved_cache = dict(ac._fuseinfos)
    saved_size = ac._fuseinfo_cache_maxsize
    cached = getattr(ac.cached_fuse_block_info, "__wrapped__", ac.cached_fuse_block_info)  # below the plan hook
    n = 0
    try:
        ac.hasher = recorder
        ac.calc_fuse_block_info = lambda arr, groups: SENT
        ac._fuseinfo_cache_maxsize = 10**9
        ac._fuseinfos.clear()
        axes = list(range(nd))
        while n < ncalls:
            k1 = rng.randint(1, 4)
            k2 = rng.randint(0, min(3, nd - k1))
            p_ = rng.sample(axes, k1 + k2)
            groups = (tuple(p_[:k1]),) + ((tuple(p_[k1:]),) if k2 else ())
            cached(x, groups)
            n += 1
            if len(collisions) >= 3:
                break
            if n % 4000 == 0:
                # a new subject (new sector list, new index keys): a new family of key material
                x = new_subject()
                while len(x.blocks) < 4:
                    x = new_subject()
                subjects.append(x)
    finally:
        ac.hasher = orig_hasher
        ac.calc_fuse_block_info = orig_calc
        ac._fuseinfo_cache_maxsize = saved_size
        ac._fuseinfos.clear()
        ac._fuseinfos.update(saved_cache)
    replayed = 0
    from .dense import describe, snapshot

    for (x1, g1), (x2, g2) in collisions[:3]:
        # real replay: cold cache, first call, second call; then the second call cache-free
        hooks.set_cache(maxsize=8192, clear=True)
        o1 = ctx.call(lambda: x1.fuse(*g1))
        o2 = ctx.call(lambda: x2.fuse(*g2))
        replayed += 1
        same_x = "the same array" if x1 is x2 else "another array"
        wit = {"x1": describe(x1), "x2": describe(x2), "groups_1": repr(g1), "groups_2": repr(g2)}
        if o1.ok and o2.ok:
            hooks.set_cache(maxsize=0, clear=True)
            o3 = ctx.call(lambda: x2.fuse(*g2))
            if o3.ok and snapshot(o3.value) != snapshot(o2.value):
                ctx.violation("cache-key-collision-false-hit", f"fuse{g2} right after fuse{g1} on {same_x} (the two cache keys have the same digest) differs from the cache-free fuse{g2}", wit)
        elif o1.ok and not o2.ok:
            ctx.violation("cache-key-collision-false-hit", f"fuse{g2} right after fuse{g1} on {same_x} (the two cache keys have the same digest) raised {o2.exc!r}", wit)
    return n, len(collisions), replayed
