"""C11 — decompositions reconstruct the input from properly structured factors."""
import numpy as np

from symv import cmp, gen, lingen
from symv import refsym as R
from symv.audit import audit
from symv.dense import LayoutError, describe, embed, index_sig_nosub, is_fermionic, phases_of, struct_sig

META = {
    "level": "exploration",
    "level_text": "Every monitored qr (plain, stabilised, qr_stabilized), svd, eigh and solve call (module function and autoray dispatch) on generated abelian and fermionic matrices is judged structurally: reconstruction through the library's own contraction / diagonal multiplication equals the input (embedded comparison, tolerance 1e-9 x scale), Q/U blocks have orthonormal columns, V-dagger blocks orthonormal rows, R blocks upper triangular (non-negative real diagonal when stabilised), singular values real, non-negative, non-increasing inside each charge, bond index direction / charge set / sizes as promised, R and V-dagger of identity charge, factors pass the C01 audit; solve returns the right charge and index and satisfies a.x = b. Seeded random exploration (tall/wide/square/rank-deficient/missing blocks, fused inputs, complex, pending signs). Later additions: data rescaled by 1e-170 .. 1e160 with tolerances relative to the data, large (16-24) and exactly structured blocks, two-label even matrices with the labels of the reconstruction compared, matrices with identity histories, block-less right-hand sides, positional / keyword call forms. Round 9: integer-typed blocks (int64 / int32, bool for abelian Hermitian matrices), blocks with identically zero rows / columns, user-defined symmetries.",
    "technique": "runtime monitoring: structural post-condition oracle + reconstruction through the library's own contraction",
    "rule": (
        "one evaluation = one decomposition call judged by the structural list. Non-trivial = input has >=2 blocks of different shapes or a rank-deficient block; "
        "distinct by (function, form, structure signature, features)."
    ),
    "anchors": ["linalg.qr", "linalg.qr_fermionic", "linalg.svd", "linalg.svd_fermionic", "linalg.eigh", "linalg.eigh_fermionic", "linalg.solve", "linalg.solve_fermionic", "linalg._get_qr_fn"],
    "floors": {
        "quick": {"evaluations": 4000, "distinct_nontrivial": 800, "tables": {"fn/qr": 800, "fn/qr-stabilized": 500, "fn/svd": 800, "fn/eigh": 400, "fn/solve": 400, "feature/fermionic": 1200, "feature/pending-signs": 150, "feature/fused": 300, "feature/rank-deficient-block": 200, "feature/missing-blocks": 500}},
        "thorough": {"evaluations": 120000, "distinct_nontrivial": 25000, "tables": {"fn/eigh": 10000, "fn/solve": 10000}},
    },
    "wall": {"quick": 900, "thorough": 1500},
}

TOL = 1e-9


def scale_of(x):
    """Norm of the data: tolerances are RELATIVE to it (tiny-scale inputs are judged as strictly)."""
    m = max((float(np.abs(np.asarray(b)).max(initial=0)) for b in x.blocks.values()), default=0.0)
    if not m > 0:
        return 1.0
    # (scaled by the largest element first: the squares of 1e-170 or 1e160 leave the float range)
    n = m * float(np.sqrt(sum(np.sum(np.abs(np.asarray(b) / m) ** 2) for b in x.blocks.values())))
    return n if n > 0 else 1.0


def maybe_tiny(ctx, rng, x):
    """Scale all data of x by a tiny or huge factor in a share of the cases."""
    if rng.random() < 0.12:
        f = rng.choice([1e-9, 1e-12, 1e-6, 1e7, 1e-100, 1e100, 1e-170, 1e160])
        for s_ in list(x.blocks):
            x.blocks[s_] = x.blocks[s_] * f
        ctx.count("feature", "rescaled-data")
        if f in (1e-170, 1e160):
            ctx.count("feature", "extreme-scale-data")
    return x


def orthonormal_cols(b, tol):
    b = np.asarray(b)
    return np.allclose(b.conj().T @ b, np.eye(b.shape[1]), atol=tol)


def orthonormal_rows(b, tol):
    b = np.asarray(b)
    return np.allclose(b @ b.conj().T, np.eye(b.shape[0]), atol=tol)


def check_bond(ctx, V, x, left, right, what):
    """Bond between `left` (axis 1) and `right` (axis 0)."""
    col = x.indices[1]
    bl, br = left.indices[1], right.indices[0]
    if bool(bl.dual) != bool(col.dual):
        V(f"{what}-bond-direction", f"bond on the left factor has direction {bl.dual}, input column index {col.dual}")
        return False
    if bool(br.dual) == bool(bl.dual):
        V(f"{what}-bond-direction", "bond has the same direction on both factors")
        return False
    want = {}
    for (r, c), b in x.blocks.items():
        want[c] = min(np.asarray(b).shape)
    if dict(bl.chargemap) != want or dict(br.chargemap) != want:
        V(f"{what}-bond-table", f"bond charge table {dict(bl.chargemap)} / {dict(br.chargemap)} != one charge per input block with its rank count {want}")
        return False
    if index_sig_nosub(right.indices[1]) != index_sig_nosub(col) or index_sig_nosub(left.indices[0]) != index_sig_nosub(x.indices[0]):
        V(f"{what}-outer-indices", "outer indices of the factors are not the input's indices")
        return False
    sym = R.symname(x)
    if right.charge != R.identity(sym):
        V(f"{what}-right-factor-charge", f"right factor has charge {right.charge!r}, expected the identity")
        return False
    if left.charge != x.charge:
        V(f"{what}-left-factor-charge", f"left factor has charge {left.charge!r} != input charge {x.charge!r}")
        return False
    return True


def recon_ok(ctx, V, what, rec, x, tol):
    try:
        got = embed(rec, x.indices)
    except LayoutError as e:
        V(f"{what}-reconstruction-layout", str(e))
        return False
    exp = embed(x)
    if not np.allclose(got, exp, atol=tol, rtol=0):
        V(f"{what}-reconstruction", f"product of the factors differs from the input, max|diff| {cmp.maxdiff(got, exp)}")
        return False
    from symv.dense import labels_of

    if labels_of(rec) != labels_of(x):
        V(f"{what}-reconstruction-labels", f"product of the factors carries the odd-position labels {labels_of(rec)}, the input {labels_of(x)} (it is not interchangeable with the input in further contractions)")
        return False
    return True


def case_qr_svd(ctx, rng):
    import autoray as ar

    sr = ctx.sr
    x, feats = lingen.rand_matrix(ctx, rng)
    if x is None or not x.blocks:
        return
    x = maybe_tiny(ctx, rng, x)
    fn = rng.choice(["qr", "qr-stabilized", "svd"])
    via = rng.choice(["function", "autoray"])
    wit = {"fn": fn, "via": via, "x": describe(x, True)}
    tol = TOL * scale_of(x)
    V = lambda mech, msg: ctx.violation(mech, f"{fn} via {via}: {msg}", wit)
    ctx.evaluated()
    ctx.count("fn", fn)
    for f in feats:
        ctx.count("feature", f)
    if fn == "qr":
        o = ctx.call((lambda: sr.linalg.qr(x)) if via == "function" else (lambda: ar.do("linalg.qr", x)))
    elif fn == "qr-stabilized":
        which = rng.choice(["kw", "fn"])
        if which == "kw":
            o = ctx.call(lambda: sr.linalg.qr(x, stabilized=True))
        else:
            o = ctx.call((lambda: sr.linalg.qr_stabilized(x)) if via == "function" else (lambda: ar.do("qr_stabilized", x)))
            if o.ok:
                q, none, r = o.value
                if none is not None:
                    V("qr_stabilized-middle", "middle return value is not None")
                o.value = (q, r)
    else:
        o = ctx.call((lambda: sr.linalg.svd(x)) if via == "function" else (lambda: ar.do("linalg.svd", x)))
    if not o.ok:
        V(f"{fn}-raises-{o.excname}", repr(o.exc))
        return
    nt = ("blocks-of-different-shapes" in feats or "rank-deficient-block" in feats)
    if fn.startswith("qr"):
        q, r = o.value
        for nm, f_ in (("Q", q), ("R", r)):
            errs = audit(f_)
            if errs:
                V(f"qr-invalid-{nm}", "; ".join(errs[:3]))
                return
        if type(q) is not type(x) or type(r) is not type(x):
            V("qr-class", f"factor classes {type(q).__name__}, {type(r).__name__}")
            return
        if set(q.blocks) != set(x.blocks):
            V("qr-q-sectors", "Q does not have one block per input block")
            return
        if not check_bond(ctx, V, x, q, r, "qr"):
            return
        for s, b in q.blocks.items():
            if not orthonormal_cols(b, 1e-9):
                V("qr-q-not-orthonormal", f"Q block {s} does not have orthonormal columns")
                return
        for s, b in r.blocks.items():
            b = np.asarray(b)
            if s[0] != s[1]:
                V("qr-r-offdiagonal-sector", f"R block in sector {s}")
                return
            if not np.allclose(np.tril(b, -1), 0, atol=tol):
                V("qr-r-not-triangular", f"R block {s} is not upper triangular")
                return
            if fn == "qr-stabilized":
                d = np.diag(b)
                if np.any(np.abs(d.imag) > tol) or np.any(d.real < -tol):
                    V("qr-stabilized-diagonal", f"R block {s} has diagonal {d} (not real non-negative)")
                    return
        orec = ctx.call(lambda: sr.tensordot(q, r, 1, preserve_array=True) if rng.random() < 0.5 else q @ r)
        if not orec.ok:
            V(f"qr-reconstruct-raises-{orec.excname}", repr(orec.exc))
            return
        if not recon_ok(ctx, V, "qr", orec.value, x, tol):
            return
    else:
        u, s_, vh = o.value
        for nm, f_ in (("U", u), ("s", s_), ("VH", vh)):
            errs = audit(f_)
            if errs:
                V(f"svd-invalid-{nm}", "; ".join(errs[:3]))
                return
        if set(u.blocks) != set(x.blocks):
            V("svd-u-sectors", "U does not have one block per input block")
            return
        if not check_bond(ctx, V, x, u, vh, "svd"):
            return
        if set(s_.blocks) != set(u.indices[1].chargemap):
            V("svd-s-charges", f"singular value charges {sorted(s_.blocks, key=repr)} != bond charges")
            return
        for c, sv in s_.blocks.items():
            sv = np.asarray(sv)
            if sv.dtype.kind == "c" or np.any(sv < 0) or np.any(np.diff(sv) > 1e-12 * max(1.0, float(sv.max(initial=0)))):
                V("svd-s-order", f"singular values of charge {c!r} not real / non-negative / non-increasing: {sv}")
                return
            if sv.shape != (u.indices[1].chargemap[c],):
                V("svd-s-size", f"singular values of charge {c!r} have shape {sv.shape}")
                return
        for sec, b in u.blocks.items():
            if not orthonormal_cols(b, 1e-9):
                V("svd-u-not-orthonormal", f"U block {sec}")
                return
        for sec, b in vh.blocks.items():
            if sec[0] != sec[1]:
                V("svd-vh-offdiagonal-sector", f"VH block in sector {sec}")
                return
            if not orthonormal_rows(b, 1e-9):
                V("svd-vh-not-orthonormal", f"VH block {sec}")
                return
        if rng.random() < 0.5:
            orec = ctx.call(lambda: sr.tensordot(sr.multiply_diagonal(u, s_, 1), vh, 1, preserve_array=True))
        else:
            orec = ctx.call(lambda: sr.tensordot(u, sr.multiply_diagonal(vh, s_, 0), 1, preserve_array=True))
        if not orec.ok:
            V(f"svd-reconstruct-raises-{orec.excname}", repr(orec.exc))
            return
        if not recon_ok(ctx, V, "svd", orec.value, x, tol):
            return
    if nt:
        ctx.nontrivial((fn, via, struct_sig(x), tuple(sorted(feats))))
        ctx.sample({"fn": fn, "via": via, "x": describe(x), "features": sorted(feats)}, limit=3)


def case_eigh(ctx, rng):
    import autoray as ar

    sr = ctx.sr
    x, feats = lingen.hermitian_matrix(ctx, rng)
    if not x.blocks:
        return
    x = maybe_tiny(ctx, rng, x)
    if rng.random() < 0.15 and "integer-typed-blocks" not in feats:
        # nearly diagonal hermitian blocks: O(1) diagonal, tiny couplings
        for s_, b_ in list(x.blocks.items()):
            d_ = np.diag(np.diag(b_).real)
            x.blocks[s_] = (d_ + 1e-9 * (b_ - np.diag(np.diag(b_)))).astype(b_.dtype)
        ctx.count("feature", "nearly-diagonal")
    via = rng.choice(["function", "autoray"])
    wit = {"fn": "eigh", "via": via, "x": describe(x, True)}
    V = lambda mech, msg: ctx.violation(mech, f"eigh via {via}: {msg}", wit)
    tol = TOL * scale_of(x)
    o = ctx.call((lambda: sr.linalg.eigh(x)) if via == "function" else (lambda: ar.do("linalg.eigh", x)))
    ctx.evaluated()
    ctx.count("fn", "eigh")
    for f in feats:
        ctx.count("feature", f)
    if not o.ok:
        V(f"eigh-raises-{o.excname}", repr(o.exc))
        return
    el, ev = o.value
    errs = audit(ev) + audit(el)
    if errs:
        V("eigh-invalid-factor", "; ".join(errs[:3]))
        return
    if set(ev.blocks) != set(x.blocks) or set(el.blocks) != {s[1] for s in x.blocks}:
        V("eigh-sectors", "eigenvector / eigenvalue sectors do not match the input blocks")
        return
    for sec, b in ev.blocks.items():
        if not orthonormal_cols(b, 1e-9) or np.asarray(b).shape[0] != np.asarray(b).shape[1]:
            V("eigh-vectors-not-unitary", f"block {sec}")
            return
    for c, v in el.blocks.items():
        if np.asarray(v).dtype.kind == "c":
            V("eigh-values-complex", f"eigenvalues of charge {c!r} are complex")
            return
    orec = ctx.call(lambda: sr.tensordot(sr.multiply_diagonal(ev, el, 1), ev.dagger(), 1, preserve_array=True))
    if not orec.ok:
        V(f"eigh-reconstruct-raises-{orec.excname}", repr(orec.exc))
        return
    if not recon_ok(ctx, V, "eigh", orec.value, x, tol):
        return
    if len(x.blocks) >= 2:
        ctx.nontrivial(("eigh", via, struct_sig(x), tuple(sorted(feats))))


def case_solve(ctx, rng):
    import autoray as ar

    sr = ctx.sr
    sym = rng.choice(gen.SYMS5)
    ferm = rng.random() < 0.5
    a, feats = lingen.rand_matrix(ctx, rng, sym, ferm, kind="direct", uniform=True, sparsity=0.0, min_charges=2)
    if a is None or not a.blocks:
        return
    # well conditioned square blocks
    intblocks = "integer-typed-blocks" in feats
    for s, b in list(a.blocks.items()):
        if intblocks:
            # integer-typed and strictly diagonally dominant
            b = np.asarray(b)
            a.blocks[s] = (b - np.diag(np.diag(b)) + np.diag(np.abs(b).sum(axis=1) + 1)).astype(b.dtype)
        else:
            a.blocks[s] = b + 3.0 * np.eye(b.shape[0])
    fa = 1.0 if intblocks else rng.choice([1.0, 1.0, 1.0, 1e-9, 1e6])
    fb = rng.choice([1.0, 1.0, 1.0, 1e-9, 1e-12, 1e5])
    if fa != 1.0:
        for s in list(a.blocks):
            a.blocks[s] = a.blocks[s] * fa
    _, _, kind = gen.pick_class(sr, rng, sym, ferm)
    kind = "static" if type(a).static_symmetry else "generic_str"
    b = gen.make_array(sr, rng, sym, [a.indices[0]], fermionic=ferm, kind=kind, values=gen.Values(rng, "gauss", "float64" if intblocks else str(next(iter(a.blocks.values())).dtype)), label=77, sparsity=rng.choice([0.0, 0.4]))
    if fb != 1.0:
        for s in list(b.blocks):
            b.blocks[s] = b.blocks[s] * fb
        ctx.count("feature", "rescaled-data")
    # b may only live where a has a row block
    rows = {s[0] for s in a.blocks}
    for s in list(b.blocks):
        if s[0] not in rows:
            del b.blocks[s]
    empty_b = False
    if b.blocks and rng.random() < 0.06:
        # the symmetric zero vector: no stored block (the solution is the zero vector of charge
        # charge(b) - charge(a))
        for s in list(b.blocks):
            del b.blocks[s]
        empty_b = True
        feats = set(feats) | {"right-hand-side-without-blocks"}
    if not b.blocks and not empty_b:
        return
    via = rng.choice(["function", "autoray"])
    wit = {"fn": "solve", "via": via, "a": describe(a, True), "b": describe(b, True)}
    V = lambda mech, msg: ctx.violation(mech, f"solve via {via}: {msg}", wit)
    o = ctx.call((lambda: sr.linalg.solve(a, b)) if via == "function" else (lambda: ar.do("linalg.solve", a, b)))
    ctx.evaluated()
    ctx.count("fn", "solve")
    for f in feats:
        ctx.count("feature", f)
    if not o.ok:
        V(f"solve-raises-{o.excname}", repr(o.exc))
        return
    x = o.value
    errs = audit(x)
    if errs:
        if ferm and R.par(sym, a.charge) and all("odd-position labels" in e for e in errs):
            # known finding: the solution inherits b's labels although its parity is b's minus a's
            V("solve-odd-matrix-label-parity", "; ".join(errs[:3]))
        else:
            V("solve-invalid-result", "; ".join(errs[:3]))
        return
    want_charge = R.comb(sym, [b.charge, R.neg(sym, a.charge)])
    if x.charge != want_charge:
        V("solve-charge", f"solution charge {x.charge!r} != b.charge - a.charge = {want_charge!r}")
        return
    col = a.indices[1]
    if x.ndim != 1 or bool(x.indices[0].dual) == bool(col.dual) or any(col.chargemap.get(c) != d for c, d in x.indices[0].chargemap.items()):
        V("solve-index", "solution index is not the conjugate of the matrix's column index")
        return
    oax = ctx.call(lambda: sr.tensordot(a, x, 1, preserve_array=True))
    if not oax.ok:
        V(f"solve-check-raises-{oax.excname}", repr(oax.exc))
        return
    try:
        got = embed(oax.value, [a.indices[0]])
    except LayoutError as e:
        V("solve-layout", str(e))
        return
    exp = embed(b, [a.indices[0]])
    # labels: a.x carries the labels of a and x; compare in canonical label form
    from symv import graded as G
    from symv.dense import labels_of

    s1, l1 = G.canon_labels(labels_of(oax.value)) if ferm else (1, [])
    s2, l2 = G.canon_labels(labels_of(b)) if ferm else (1, [])
    if l1 != l2:
        V("solve-labels", f"a.x carries labels {l1}, b carries {l2}")
        return
    if not np.allclose(got * s1, exp * s2, atol=TOL * scale_of(b) * 100, rtol=0):
        V("solve-residual", f"a.x != b, max|diff| {cmp.maxdiff(got * s1, exp * s2)}")
        return
    if len(a.blocks) >= 2:
        ctx.nontrivial(("solve", via, struct_sig(a), struct_sig(b)))


def run(ctx):
    for _, rng in ctx.cases("qr-svd", ctx.budget(130000, 2500000)):
        ctx.run_case(case_qr_svd, ctx, rng)
    for _, rng in ctx.cases("eigh", ctx.budget(28000, 500000)):
        ctx.run_case(case_eigh, ctx, rng)
    for _, rng in ctx.cases("solve", ctx.budget(36000, 600000)):
        ctx.run_case(case_solve, ctx, rng)
