"""C14 — operations never modify their operands unless asked to."""
import numpy as np

from symv import gen
from symv import refsym as R
from symv.dense import describe, is_array, is_fermionic, is_vector, snap_diff, snapshot, struct_sig
from symv.program import Program, deep_twin

META = {
    "level": "exploration",
    "level_text": "Three monitors over random API programs with shared operands. (1) Deep snapshots (block order and bytes, index tables incl. sub-index records, charge, pending-sign table, labels) of every operand are taken at call and compared at return - also when the call raises - for every step issued without an in-place flag, and every pool value is re-checked against its creation snapshot at the end of the program (quiescent sweep). (2) For every operation offering an in-place flag or in-place operator the harness builds two deep twins and requires: in-place returns the very object, its final snapshot equals the out-of-place result, the out-of-place operand is untouched. (3) Aliasing stress: after y = op(x), in-place library operations (phase ops, fuse/unfuse/transpose/conj in place, *=, fill_missing_blocks) are applied to y and x must still equal its snapshot. Later additions: operands with mixed-dtype blocks, fused legs with 17-40 charges (sub-index tables in the snapshot, operand must still unfuse), in-place pairs for fuse with empty groups and drop_misaligned_sectors (overlapping and disjoint partners), eigh on lazy Hermitian pool members, ragged sums, operands of failed in-place calls leave the pool. Round 10: read-only protocols and inspection methods (repr, str, format, check, get_sparsity, is_valid_sector, get_params, index repr / matches) as operations.",
    "technique": "runtime monitoring: operand snapshot comparison at the client boundary, in-place/out-of-place differential on deep twins, aliasing stress",
    "rule": (
        "one evaluation = one monitored call (operand snapshots compared), one in-place/out-of-place pair, or one aliasing probe. Non-trivial = the operand is reused after the call "
        "(same value as both arguments, or used again later in the program) and the operation has an internal copy-then-mutate path; distinct by (operation, operand structure signature)."
    ),
    "anchors": ["abelian_core.AbelianArray.copy", "abelian_core.AbelianArray.copy_with", "fermionic_core.FermionicArray.copy", "fermionic_core.FermionicArray.copy_with", "fermionic_core.FermionicArray.transpose", "block_core.BlockBase._binary_blockwise_op", "fermionic_core.tensordot_fermionic", "fermionic_core.FermionicArray.phase_sync"],
    "floors": {
        "quick": {"evaluations": 30000, "distinct_nontrivial": 5000, "tables": {"monitor/operand-snapshots": 15000, "monitor/inplace-vs-outofplace": 3000, "monitor/aliasing-probes": 3000, "monitor/quiescent-sweep": 1500, "kind/fermionic": 8000, "feature/mixed-dtype-operand": 300, "wide/fused-leg-charges>=17": 300}},
        "thorough": {"evaluations": 800000, "distinct_nontrivial": 80000},
    },
    "wall": {"quick": 900, "thorough": 1700},
}


def inplace_pairs(prog, x):
    """(name, f_out, f_in) for operations with an in-place form applicable to x."""
    rng, sr = prog.rng, prog.sr
    nd = x.ndim
    ferm = is_fermionic(x)
    out = []
    s = rng.choice([2.0, -0.5])
    out.append(("mul-scalar", lambda a: a * s, lambda a: a.__imul__(s)))
    out.append(("div-scalar", lambda a: a / s, lambda a: a.__itruediv__(s)))
    out.append(("sync_charges", lambda a: a.sync_charges(), lambda a: a.sync_charges(inplace=True)))
    out.append(("conj", lambda a: a.conj(), lambda a: a.conj(inplace=True)))
    out.append(("dagger", lambda a: a.dagger(), lambda a: a.dagger(inplace=True)))
    if nd >= 1:
        perm = tuple(rng.sample(range(nd), nd))
        out.append(("transpose", lambda a: a.transpose(perm), lambda a: a.transpose(perm, inplace=True)))
        ax = rng.randint(0, nd)
        out.append(("expand_dims", lambda a: a.expand_dims(ax), lambda a: a.expand_dims(ax, inplace=True)))
        axd = rng.randrange(nd)
        v = prog.vector_for(x.indices[axd])
        out.append(("multiply_diagonal", lambda a: a.multiply_diagonal(v, axd), lambda a: a.multiply_diagonal(v, axd, inplace=True)))
    if nd >= 2:
        from checks.c05 import groupings
        from checks.c07 import reachable_targets

        gs = rng.choice(groupings(rng, nd, 4))
        out.append(("fuse", lambda a: a.fuse(*gs), lambda a: a.fuse(*gs, inplace=True)))
        # with empty groups (each becomes a new size-one axis unless expand_empty=False)
        gse = list(gs)
        for _ in range(rng.randint(1, 2)):
            gse.insert(rng.randint(0, len(gse)), ())
        ee = rng.random() < 0.75
        out.append(("fuse-empty-group", lambda a: a.fuse(*gse, expand_empty=ee), lambda a: a.fuse(*gse, expand_empty=ee, inplace=True)))
        shape = tuple(ix.size_total for ix in x.indices)
        tg = [t for t in sorted(reachable_targets(shape)) if t != ()]
        t = rng.choice(tg)
        out.append(("reshape", lambda a: a.reshape(t), lambda a: a.reshape(t, inplace=True)))
    if nd >= 1:
        # alignment with a partner whose sectors overlap x's only partly, or not at all
        from symmray.abelian_core import drop_misaligned_sectors

        axs_al = rng.sample(range(nd), rng.randint(1, nd))
        pseed = rng.getrandbits(40)
        disjoint = rng.random() < 0.3

        def al_partner(a):
            import random as _r

            r2 = _r.Random(pseed)
            ib = [gen.conj_index(sr, a.indices[i]) for i in axs_al]
            y_ = gen.make_array(sr, r2, prog.sym, ib, fermionic=ferm, kind=prog.kind, values=gen.Values(r2, "int", prog.dtype), label=771, sparsity=0.6 if not disjoint else 0.0, nphase=0, exotic=False)
            if disjoint and y_.blocks:
                # keep only sectors whose sub-sector does not occur in a
                have = {tuple(s_[i] for i in axs_al) for s_ in a.blocks}
                for s_ in [s_ for s_ in list(y_.blocks) if s_ in have][: max(0, len(y_.blocks) - 0)]:
                    del y_.blocks[s_]
            return y_

        def al_out(a):
            b = al_partner(a)
            return drop_misaligned_sectors(a, b, tuple(axs_al), tuple(range(len(axs_al))))[0]

        def al_in(a):
            b = al_partner(a)
            drop_misaligned_sectors(a, b, tuple(axs_al), tuple(range(len(axs_al))), inplace=True)
            return a

        out.append(("drop_misaligned_sectors", al_out, al_in))
    fused = [i for i, ix in enumerate(x.indices) if ix.subinfo is not None]
    if fused:
        axf = rng.choice(fused)
        out.append(("unfuse", lambda a: a.unfuse(axf), lambda a: a.unfuse(axf, inplace=True)))
        out.append(("unfuse_all", lambda a: a.unfuse_all(), lambda a: a.unfuse_all(inplace=True)))
    ones = [i for i, ix in enumerate(x.indices) if ix.size_total == 1 and next(iter(ix.chargemap)) == R.identity(prog.sym)]
    if ones:
        axs = rng.choice(ones)
        out.append(("squeeze", lambda a: a.squeeze(axs), lambda a: a.squeeze(axs, inplace=True)))
    y_seed = rng.getrandbits(40)

    def partner(a):
        import random as _r

        r2 = _r.Random(y_seed)
        y = gen.make_array(sr, r2, prog.sym, list(a.indices), charge=a.charge, fermionic=ferm, kind=prog.kind, values=gen.Values(r2, "int", prog.dtype), label=1, nphase=2 if ferm else 0)
        if ferm:
            y.modify(oddpos=a.oddpos)
        return y

    out.append(("add", lambda a: a + partner(a), lambda a: a.__iadd__(partner(a))))
    out.append(("mul-array", lambda a: a * partner(a), lambda a: a.__imul__(partner(a))))
    if ferm:
        if nd:
            axs_ = rng.sample(range(nd), rng.randint(1, nd))
            perm2 = tuple(rng.sample(range(nd), nd))
            out.append(("phase_flip", lambda a: a.phase_flip(*axs_), lambda a: a.phase_flip(*axs_, inplace=True)))
            out.append(("phase_transpose", lambda a: a.phase_transpose(perm2), lambda a: a.phase_transpose(perm2, inplace=True)))
        out.append(("phase_global", lambda a: a.phase_global(), lambda a: a.phase_global(inplace=True)))
        out.append(("phase_sync", lambda a: a.phase_sync(), lambda a: a.phase_sync(inplace=True)))
        if x.blocks:
            sec = rng.choice(list(x.blocks))
            out.append(("phase_sector", lambda a: a.phase_sector(sec), lambda a: a.phase_sector(sec, inplace=True)))
        pd = rng.random() < 0.5
        out.append(("conj-opts", lambda a: a.conj(phase_dual=pd), lambda a: a.conj(phase_dual=pd, inplace=True)))
        out.append(("dagger-pd", lambda a: a.dagger(phase_dual=pd), lambda a: a.dagger(phase_dual=pd, inplace=True)))
    return out


def inplace_mutators(prog, y):
    """In-place library operations to apply to a RESULT y while watching its source x."""
    rng = prog.rng
    nd = y.ndim
    def self_partner(a):
        # same structure, independent memory
        return deep_twin(a)

    m = [("imul", lambda a: a.__imul__(-3.0)), ("iadd", lambda a: a.__iadd__(self_partner(a))), ("isub", lambda a: a.__isub__(self_partner(a))), ("itruediv", lambda a: a.__itruediv__(2.0)), ("fill_missing_blocks", lambda a: a.fill_missing_blocks()), ("conj-inplace", lambda a: a.conj(inplace=True)), ("sync_charges-inplace", lambda a: a.sync_charges(inplace=True)), ("apply_to_arrays", lambda a: a.apply_to_arrays(lambda b: b * 2)), ("drop_missing_blocks", lambda a: a.drop_missing_blocks())]
    if nd >= 1:
        perm = tuple(rng.sample(range(nd), nd))
        m.append(("transpose-inplace", lambda a: a.transpose(perm, inplace=True)))
    if nd >= 2:
        m.append(("fuse-inplace", lambda a: a.fuse((0, 1), inplace=True)))
    if any(ix.subinfo is not None for ix in y.indices):
        m.append(("unfuse_all-inplace", lambda a: a.unfuse_all(inplace=True)))
    if is_fermionic(y):
        m += [("phase_global-inplace", lambda a: a.phase_global(inplace=True)), ("phase_sync-inplace", lambda a: a.phase_sync(inplace=True))]
        if nd:
            axs = rng.sample(range(nd), rng.randint(1, nd))
            m.append(("phase_flip-inplace", lambda a: a.phase_flip(*axs, inplace=True)))
            perm2 = tuple(rng.sample(range(nd), nd))
            m.append(("phase_transpose-inplace", lambda a: a.phase_transpose(perm2, inplace=True)))
    return m


def run_program(ctx, rng):
    dtype = rng.choice(["float64", "float64", "complex128"])
    prog = Program(ctx, rng, dtype=dtype, values="int")
    ctx.count("programs", "started")
    born = {}

    def register(v):
        if is_array(v) or is_vector(v):
            born[id(v)] = (v, snapshot(v))

    for _ in range(rng.randint(2, 4)):
        v = prog.fresh()
        if dtype == "complex128" and len(v.blocks) >= 2 and rng.random() < 0.4:
            # blocks of mixed element type, as left behind by real + complex on arrays with
            # different stored sectors: some blocks real, the others complex
            keys = list(v.blocks)
            for k_ in rng.sample(keys, rng.randint(1, len(keys) - 1)):
                v.blocks[k_] = np.ascontiguousarray(np.asarray(v.blocks[k_]).real)
            ctx.count("feature", "mixed-dtype-operand")
        prog.pool.append(v)
        register(v)
    trace = []
    for step in range(rng.randint(10, 30)):
        st = prog.pick()
        if st is None:
            break
        name, operands, f, info = st
        trace.append(name)
        ops_ = [v for v in operands if is_array(v) or is_vector(v)]
        before = [snapshot(v) for v in ops_]
        o = ctx.call(f, *operands)
        after = [snapshot(v) for v in ops_]
        ctx.count("kind", "fermionic" if prog.ferm else "abelian")
        if not info.get("inplace"):
            ctx.evaluated()
            ctx.count("monitor", "operand-snapshots")
            for k, (b, a) in enumerate(zip(before, after)):
                if b != a:
                    ctx.violation(f"operand-modified:{name.split(':')[0]}", f"{name} ({'raised ' + o.excname if not o.ok else 'returned'}) changed operand #{k}: {snap_diff(b, a)}", {"op": name, "trace": trace[-10:], "operand": describe(ops_[k], True)})
                    break
            reused = len(operands) == 2 and operands[0] is operands[1]
            for v in ops_:
                if reused or any(v is p for p in prog.pool):
                    ctx.nontrivial((name, struct_sig(v)))
        else:
            # deliberate in-place step: the operand's reference snapshot moves on
            for v in ops_:
                if id(v) in born:
                    born[id(v)] = (v, snapshot(v))
        if not o.ok:
            prog.failed(operands, info)
            continue
        res = o.value
        vals = res if isinstance(res, (tuple, list)) else [res]
        # ---- aliasing stress on array results of out-of-place steps
        if not info.get("inplace") and not info.get("shares_by_design") and ops_ and rng.random() < 0.6:
            for y in vals:
                if not is_array(y) or any(y is v for v in ops_) or not y.blocks:
                    continue
                muts = inplace_mutators(prog, y)
                for mname, mf in rng.sample(muts, min(3, len(muts))):
                    om = ctx.call(mf, y)
                    ctx.evaluated()
                    ctx.count("monitor", "aliasing-probes")
                    now = [snapshot(v) for v in ops_]
                    for k, (b, a) in enumerate(zip(before, now)):
                        if b != a:
                            ctx.violation(f"result-aliases-operand:{name.split(':')[0]}", f"after y = {name}(x), the in-place operation {mname} on y changed x (operand #{k}): {snap_diff(b, a)}", {"op": name, "inplace_op_on_result": mname, "trace": trace[-10:], "operand": describe(ops_[k], True)})
                            return
                break
            continue  # results that were mutated are not fed back
        if info.get("shares_by_design"):
            continue  # (a shallow copy: later in-place steps on it would legitimately show in its original)
        for v in vals:
            register(v)
        prog.admit(res)
        # ---- in-place vs out-of-place on deep twins
        if ops_ and is_array(ops_[0]) and ops_[0].blocks and rng.random() < 0.5:
            x = ops_[0]
            pairs = inplace_pairs(prog, x)
            pname, f_out, f_in = rng.choice(pairs)
            t1, t2 = deep_twin(x), deep_twin(x)
            s1 = snapshot(t1)
            o1 = ctx.call(f_out, t1)
            o2 = ctx.call(f_in, t2)
            ctx.evaluated()
            ctx.count("monitor", "inplace-vs-outofplace")
            ctx.count("inplace-op", pname)
            w = {"op": pname, "x": describe(x, True)}
            if o1.ok != o2.ok:
                ctx.violation(f"inplace-differs:{pname}", f"{pname}: out-of-place {'ok' if o1.ok else repr(o1.exc)}, in-place {'ok' if o2.ok else repr(o2.exc)}", w)
            elif o1.ok:
                if o2.value is not t2:
                    ctx.violation(f"inplace-returns-new-object:{pname}", f"{pname}(inplace=True) did not return the operand itself", w)
                elif snapshot(o2.value)[2:] != snapshot(o1.value)[2:]:
                    ctx.violation(f"inplace-differs:{pname}", f"{pname}: in-place result differs from the out-of-place result: {snap_diff(snapshot(o1.value), snapshot(o2.value))}", w)
                elif snapshot(t1) != s1:
                    ctx.violation(f"operand-modified:{pname}", f"{pname} without in-place flag changed its operand: {snap_diff(s1, snapshot(t1))}", w)
                else:
                    ctx.nontrivial(("inplace", pname, struct_sig(x)))
    # ---- quiescent sweep
    for v, s0 in born.values():
        ctx.evaluated()
        ctx.count("monitor", "quiescent-sweep")
        s1 = snapshot(v)
        if s1 != s0:
            ctx.violation("value-changed-behind-the-scenes", f"a value changed between its creation and the end of the program although no in-place operation was applied to it: {snap_diff(s0, s1)} (trace {trace})", {"trace": trace, "value": describe(v, True)})
            break
    ctx.sample({"symmetry": prog.sym, "fermionic": prog.ferm, "kind": prog.kind, "trace": trace[:12]}, limit=3)
    ctx.count("programs", "completed")


def wide_legs(ctx, rng):
    """Operands whose fused legs carry 17-40 charges (U1 / U1U1 legs with 5-9 charges each,
    fused): out-of-place operations that drop only one or two of those charges must still
    leave the operand - including the sub-index tables of its fused legs - untouched."""
    sr = ctx.sr
    sym = rng.choice(["U1", "U1", "U1U1"])
    ferm = rng.random() < 0.4
    if sym == "U1":
        mk = lambda: sr.BlockIndex({c: 1 for c in range(-rng.randint(4, 5), rng.randint(4, 5) + 1)}, dual=rng.random() < 0.5)
    else:
        mk = lambda: sr.BlockIndex({(a, b): 1 for a in range(-1, 2) for b in range(-1, 2)}, dual=rng.random() < 0.5)
    # (four wide legs: the charges a fused pair can take are limited by what the rest allows)
    idx = [mk(), mk(), mk(), mk()]
    x = gen.make_array(sr, rng, sym, idx, fermionic=ferm, values=gen.Values(rng, "int"), sparsity=rng.choice([0.0, 0.3]), exotic=False)
    o = ctx.call(lambda: x.fuse((0, 1), (2, 3)) if rng.random() < 0.5 else x.fuse((0, 1)).fuse((1, 2)))
    if not o.ok or not o.value.blocks:
        return
    f = o.value
    ncharges = len(f.indices[0].chargemap)
    ctx.count("wide", "fused-leg-charges>=17" if ncharges >= 17 else "fused-leg-charges<17")
    # partner on the conjugate of the fused leg, lacking one or two of its charges
    cj = f.indices[0].conj()
    lack = rng.sample(sorted(cj.chargemap), min(rng.randint(1, 2), len(cj.chargemap) - 1))
    pidx = sr.BlockIndex({c: d for c, d in cj.chargemap.items() if c not in lack}, dual=cj.dual)
    y = gen.make_array(sr, rng, sym, [pidx, gen.rand_index(sr, rng, sym, maxc=2, maxd=2)], fermionic=ferm, values=gen.Values(rng, "int"), kind="static", sparsity=0.0, exotic=False, label=991)
    vec = sr.BlockVector({c: np.ones(d) for c, d in f.indices[0].chargemap.items() if c not in lack})
    ops = [
        ("tensordot-blockwise", lambda a, b: sr.tensordot(a, b, axes=([0], [0]), mode="blockwise", preserve_array=True)),
        ("tensordot-fused", lambda a, b: sr.tensordot(a, b, axes=([0], [0]), mode="fused", preserve_array=True)),
        ("tensordot-reversed", lambda a, b: sr.tensordot(b, a, axes=([0], [0]), preserve_array=True)),
        ("align_axes", lambda a, b: a.align_axes(b, ((0,), (0,)))),
        ("multiply_diagonal", lambda a, b: a.multiply_diagonal(vec, 0)),
        ("multiply_diagonal-then-sync", lambda a, b: a.multiply_diagonal(vec, 0).sync_charges()),
        ("conj-tensordot", lambda a, b: sr.tensordot(a.conj(), b.conj(), axes=([0], [0]), preserve_array=True)),
        ("transpose-tensordot", lambda a, b: sr.tensordot(a.transpose((1, 0)), b, axes=([1], [0]), preserve_array=True)),
        ("self-contraction", lambda a, b: sr.tensordot(a, a.conj(), axes=([1], [1]), preserve_array=True)),
    ]
    rng.shuffle(ops)
    for name, fn in ops[:4]:
        before = [snapshot(f), snapshot(y)]
        o2 = ctx.call(fn, f, y)
        ctx.evaluated()
        ctx.count("monitor", "operand-snapshots")
        ctx.count("wide-op", name)
        after = [snapshot(f), snapshot(y)]
        for k, (b_, a_) in enumerate(zip(before, after)):
            if b_ != a_:
                ctx.violation(f"operand-modified:{name}", f"{name} ({'raised ' + o2.excname if not o2.ok else 'returned'}) changed operand #{k} (fused leg with {ncharges} charges): {snap_diff(b_, a_)}", {"op": name, "x": describe(f), "lacking": repr(lack)})
                return
        # the operand must still unfuse to what it was fused from
        o3 = ctx.call(lambda: f.unfuse(0))
        if not o3.ok:
            ctx.violation(f"operand-modified:{name}", f"after {name} the operand can no longer be unfused: {o3.exc!r}", {"op": name, "x": describe(f), "lacking": repr(lack)})
            return
        if ncharges >= 17:
            ctx.nontrivial(("wide", name, sym, ncharges, len(lack)))


def run(ctx):
    for _, rng in ctx.cases("programs", ctx.budget(34000, 700000)):
        ctx.run_case(run_program, ctx, rng)
    for _, rng in ctx.cases("wide-legs", ctx.budget(2500, 50000)):
        ctx.run_case(wide_legs, ctx, rng)
