"""C06 — contraction commutes with fusing, and all contraction strategies agree."""
import numpy as np

from symv import cmp, gen, named
from symv import graded as G
from symv import refsym as R
from symv.dense import LayoutError, describe, embed, is_fermionic, labels_of, struct_sig
from symv.hooks import Hooks
from symv.named import N, Raised, Surprise

META = {
    "level": "exploration",
    "level_text": "Metamorphic monitoring: for each generated contractible pair the results of blockwise / fused / auto contraction, of align -> fuse contracted legs (insert and concat) -> contract the single pair, and of fusing free legs before vs after contracting must all be the same array: same rank, directions, fused-ness and sub-indices per leg, labels, and exactly equal values in the leaf layout; the direct result is also anchored to numpy (abelian) or to the graded model (fermionic) so that agreeing on something wrong is excluded. Seeded random exploration, 5 symmetries. Later additions: 3-7 fully populated contracted legs with dozens of aligned block pairs, ragged contracted legs, mixed classes, align_axes through function / method / autoray forms, in-place fuse of the aligned arrays must leave the operands intact. Round 9: negative and list-typed axes passed to align_axes (ranks of the operands differ in half of these).",
    "technique": "runtime monitoring: metamorphic relations between routes + absolute reference-model anchor",
    "rule": (
        "one evaluation = one route result compared with the direct blockwise result (and the absolute reference). Routes per pair: modes blockwise/fused/auto; "
        "align+fuse contracted legs (+fuse strategy) then contract in both modes; fuse >=2 free legs of an operand before vs after contracting, in each mode, including "
        "the case where the fused leg is the operand's only free leg. Non-trivial = non-zero result and (operands' stored contracted sub-sectors differ, or a pre-fused free leg takes part); "
        "distinct by (route kind, mode, structure signatures, axes)."
    ),
    "anchors": [
        "abelian_core._tensordot_via_fused",
        "abelian_core._tensordot_blockwise",
        "abelian_core.drop_misaligned_sectors",
        "abelian_core.AbelianArray.align_axes",
        "fermionic_core.tensordot_fermionic",
        "fermionic_core.FermionicArray.fuse",
    ],
    "floors": {
        "quick": {"evaluations": 5000, "distinct_nontrivial": 800, "tables": {"route/mode": 1500, "route/prefuse-contracted": 600, "route/fuse-free-before-after": 600, "kind/fermionic": 1000, "feature/sole-free-leg-prefused": 60, "feature/misaligned": 300, "feature/many-legs": 500, "form/align_axes-negative-axis-of-second-operand-ranks-differ": 1000}},
        "thorough": {"evaluations": 200000, "distinct_nontrivial": 30000, "tables": {"route/prefuse-contracted": 30000, "route/fuse-free-before-after": 30000, "feature/sole-free-leg-prefused": 3000}},
    },
    "wall": {"quick": 900, "thorough": 1700},
}


def leaf_value(ctx, n, leafref):
    """(dense value in leaf layout * canonical label sign, canonical labels). Fused legs are
    unfused with the library's unfuse (validated by C05)."""
    x = n.x
    if any(ix.subinfo is not None for ix in x.indices):
        o = ctx.call(x.unfuse_all)
        if not o.ok:
            raise Raised("unfuse_all", o)
        x = o.value
    ref = [ix for nm in n.names for ix in leafref[nm]]
    s, lab = G.canon_labels(labels_of(x)) if is_fermionic(x) else (1, [])
    return embed(x, ref) * s, lab


def leg_structure_mismatch(r1, r2):
    if r1.names != r2.names:
        return f"leg order {r1.names} vs {r2.names}"
    for nm, i1, i2 in zip(r1.names, r1.x.indices, r2.x.indices):
        if bool(i1.dual) != bool(i2.dual):
            return f"leg {nm}: direction {i1.dual} vs {i2.dual}"
        if (i1.subinfo is None) != (i2.subinfo is None):
            return f"leg {nm}: fused={i1.subinfo is not None} vs fused={i2.subinfo is not None}"
        if i1.subinfo is not None:
            s1, s2 = i1.subinfo.indices, i2.subinfo.indices
            if len(s1) != len(s2) or any(bool(a.dual) != bool(b.dual) for a, b in zip(s1, s2)):
                return f"leg {nm}: sub-indices differ"
            for a, b in zip(s1, s2):
                for c, d in a.chargemap.items():
                    if b.chargemap.get(c, d) != d:
                        return f"leg {nm}: sub-index sizes conflict at charge {c!r}"
            for c, ext in i1.subinfo.extents.items():
                for sub, d in ext.items():
                    if i2.subinfo.extents.get(c, {}).get(sub, d) != d:
                        return f"leg {nm}: extent of {sub} conflicts"
        else:
            for c, d in i1.chargemap.items():
                if i2.chargemap.get(c, d) != d:
                    return f"leg {nm}: size of charge {c!r} {d} vs {i2.chargemap[c]}"
    return None


def same(ctx, what, base, other, leafref, wit, prefused=False, exact_tables=False):
    """Compare a route result with the base result; report at most one violation."""
    ctx.evaluated()
    if exact_tables and base.x.ndim == other.x.ndim:
        t1 = [dict(ix.chargemap) for ix in base.x.indices]
        t2 = [dict(ix.chargemap) for ix in other.x.indices]
        if t1 != t2:
            ctx.violation("strategies-differ-in-index-tables", f"{what}: index charge tables differ: {t2} vs {t1}", wit)
            return False
    if base.x.ndim != other.x.ndim:
        mech = "route-rank"
        if prefused:
            mech = "prefused-free-leg-unfused"
        ctx.violation(mech, f"{what}: rank {other.x.ndim} != {base.x.ndim} (legs {other.names} vs {base.names})", wit)
        return False
    m = leg_structure_mismatch(base, other)
    if m:
        ctx.violation("route-index-structure", f"{what}: {m}", wit)
        return False
    if type(base.x) is not type(other.x) or base.x.charge != other.x.charge:
        ctx.violation("route-class-or-charge", f"{what}: {type(other.x).__name__} charge {other.x.charge!r}", wit)
        return False
    try:
        v1, l1 = leaf_value(ctx, base, leafref)
        v2, l2 = leaf_value(ctx, other, leafref)
    except LayoutError as e:
        ctx.violation("route-layout", f"{what}: {e}", wit)
        return False
    if l1 != l2:
        ctx.violation("route-labels", f"{what}: labels {l2} vs {l1}", wit)
        return False
    if not np.array_equal(v1, v2):
        sign_only = np.array_equal(np.abs(v1), np.abs(v2))
        ctx.violation("route-sign" if sign_only else "route-value", f"{what}: values differ, max|diff| {cmp.maxdiff(v1, v2)}", wit)
        return False
    return True


def case(ctx, rng, manylegs=False):
    sr = ctx.sr
    sym = gen.pick_sym(rng)
    ferm = rng.random() < 0.5
    vals = gen.Values(rng, "int", rng.choice(["float64", "float64", "complex128"]))
    if manylegs:
        # 4-7 fully populated contracted legs of size-one sectors plus 1-2 free legs per side:
        # dozens of aligned, equally shaped block pairs feed each output block
        sym = rng.choice(["Z2", "Z2", "U1", "U1", "Z4", "Z2Z2"])
        ncon = {"Z2": rng.randint(5, 7), "U1": rng.randint(4, 5), "Z4": rng.randint(3, 4), "Z2Z2": rng.randint(3, 4)}[sym]
        mc = {"Z2": 2, "U1": 3, "Z4": 4, "Z2Z2": 4}[sym]
        a, b, axa, axb = gen.contractible_pair(sr, rng, sym, ferm, na=ncon + rng.randint(0, 2), nb=ncon + rng.randint(0, 2), ncon=ncon, values=vals, maxd=1, maxc=mc, minc=mc if rng.random() < 0.7 else 2, p_single=0.0, sparsity=rng.choice([0.0, 0.0, 0.2]))
        ctx.count("feature", "many-legs")
    else:
        a, b, axa, axb = gen.contractible_pair(sr, rng, sym, ferm, maxnd=4 if rng.random() < 0.35 else 3, values=vals, maxd=2, p_ragged=0.1, p_hist=0.1, p_mixclass=0.08)
        if any(dict(a.indices[i].chargemap) != dict(b.indices[j].chargemap) for i, j in zip(axa, axb)):
            ctx.count("feature", "contracted-legs-with-different-charge-lists")
    na = N(a, [f"c{axa.index(i)}" if i in axa else f"a{i}" for i in range(a.ndim)])
    nb = N(b, [f"c{axb.index(i)}" if i in axb else f"b{i}" for i in range(b.ndim)])
    shared = [f"c{k}" for k in range(len(axa))]
    leafref = {nm: [ix] for nm, ix in zip(na.names, a.indices)}
    leafref.update({nm: [ix] for nm, ix in zip(nb.names, b.indices) if nm not in leafref})
    wit = {"a": describe(a, True), "b": describe(b, True), "axes": [list(axa), list(axb)]}
    ctx.count("kind", "fermionic" if ferm else "abelian")
    ctx.count("symmetry", sym)
    # absolute reference of the direct contraction
    if ferm:
        ra_, rb_ = gen.union_refs(sr, a, b, axa, axb)
        exp, lab_exp, _, _, left, right = G.contract(G.from_array(a, ra_), G.from_array(b, rb_), axa, axb, a_parity_fallback=R.par(sym, a.charge))
    else:
        ra_, rb_ = gen.union_refs(sr, a, b, axa, axb)
        exp = np.tensordot(embed(a, ra_), embed(b, rb_), axes=(axa, axb))
        lab_exp = []
    nz = bool(np.any(exp != 0))
    subs_a = {tuple(s[i] for i in axa) for s in a.blocks}
    subs_b = {tuple(s[i] for i in axb) for s in b.blocks}
    misaligned = subs_a != subs_b
    if misaligned:
        ctx.count("feature", "misaligned")
    sig = (struct_sig(a), struct_sig(b), tuple(axa), tuple(axb))
    try:
        base = named.contract(ctx, na, nb, mode="blockwise", shared_order=shared)
        ctx.evaluated()
        ctx.count("route", "mode")
        v, lab = leaf_value(ctx, base, leafref)
        if lab != lab_exp or not np.array_equal(v, exp):
            ctx.violation("direct-vs-reference", f"blockwise result differs from the {'graded' if ferm else 'dense'} reference (labels {lab} vs {lab_exp}, max|diff| {cmp.maxdiff(v, exp)})", wit)
            return
        if cmp.free_index_mismatch(base.x, [leafref[nm][0] for nm in base.names]):
            ctx.violation("direct-structure", cmp.free_index_mismatch(base.x, [leafref[nm][0] for nm in base.names]), wit)
            return
        # --- strategies
        for mode in ("fused", "auto", None):
            r = named.contract(ctx, na, nb, mode=mode, shared_order=shared)
            ctx.count("route", "mode")
            if same(ctx, f"mode={mode} vs blockwise", base, r, leafref, wit, exact_tables=True) and nz and misaligned:
                ctx.nontrivial(("mode", mode, sig))
        # --- pre-fuse the contracted legs
        if len(axa) >= 1:
            # axes a la tensordot: negative positions count from the end of EACH operand
            al_a, al_b = tuple(axa), tuple(axb)
            if rng.random() < 0.35:
                al_a = tuple(i - a.ndim if rng.random() < 0.5 else i for i in axa)
                al_b = tuple(j - b.ndim if rng.random() < 0.7 else j for j in axb)
                ctx.count("form", "align_axes-negative-axes")
                if a.ndim != b.ndim and any(j < 0 for j in al_b):
                    ctx.count("form", "align_axes-negative-axis-of-second-operand-ranks-differ")
            if rng.random() < 0.3:
                al_a, al_b = list(al_a), list(al_b)
            if rng.random() < 0.3:
                import autoray as ar

                o = ctx.call(lambda: ar.do("align_axes", a, b, (al_a, al_b)))
                ctx.count("form", "align_axes-via-autoray")
            elif rng.random() < 0.3:
                o = ctx.call(lambda: a.align_axes(b, (al_a, al_b)))
                ctx.count("form", "align_axes-method")
            else:
                o = ctx.call(sr.align_axes, a, b, (al_a, al_b))
            if not o.ok:
                raise Raised("align_axes", o)
            a2, b2 = o.value
            if a2.blocks and b2.blocks:
                for strat in (["auto"] if ferm else ["insert", "concat"]):
                    kw = {} if ferm else {"mode": strat}
                    order = list(shared)
                    rng.shuffle(order)
                    af = named.fuse(ctx, N(a2, na.names), [order], ["C"], **kw)
                    bf = named.fuse(ctx, N(b2, nb.names), [order], ["C"], **kw)
                    for mode in ("blockwise", "fused"):
                        r = named.contract(ctx, af, bf, mode=mode)
                        ctx.count("route", "prefuse-contracted")
                        if same(ctx, f"align+fuse contracted legs {order} ({strat}) then {mode}", base, r, leafref, wit, exact_tables=True) and nz and (misaligned or len(axa) > 1):
                            ctx.nontrivial(("prefuse", strat, mode, sig, tuple(order)))
                            ctx.sample({"route": "align+fuse-contracted", "strategy": strat, "mode": mode, "a": describe(a), "b": describe(b), "axes": [list(axa), list(axb)]}, limit=2)
                # the aligned arrays are new values: fusing THEM in place must leave a and b what
                # they were (the direct contraction afterwards still gives the base result)
                if rng.random() < 0.3:
                    oi1 = ctx.call(lambda: a2.fuse(tuple(axa), inplace=True))
                    oi2 = ctx.call(lambda: b2.fuse(tuple(axb), inplace=True))
                    ctx.count("route", "inplace-fuse-of-aligned-arrays")
                    try:
                        again = named.contract(ctx, na, nb, mode="blockwise", shared_order=shared)
                    except (Raised, Surprise) as e_:
                        ctx.violation("aligned-array-aliases-operand", f"after fusing the arrays returned by align_axes in place, contracting the ORIGINAL operands fails: {e_}", wit)
                        return
                    if not same(ctx, "direct contraction after in-place fuse of the aligned arrays vs before", base, again, leafref, wit, exact_tables=True):
                        return
            else:
                ctx.count("route", "nothing-aligned")
        # --- fuse free legs before vs after
        for side, nn, other in (("a", na, nb), ("b", nb, na)):
            free = [nm for nm in nn.names if nm not in shared]
            if len(free) < 2:
                continue
            k = rng.randint(2, len(free))
            grp = rng.sample(free, k)
            sole = k == len(free)
            fname = f"F{side}"
            lr = dict(leafref)
            lr[fname] = [leafref[nm][0] for nm in grp]
            pre = named.fuse(ctx, nn, [grp], [fname])
            if sole:
                ctx.count("feature", "sole-free-leg-prefused")
            for mode in ("blockwise", "fused", "auto"):
                post_base = named.contract(ctx, na, nb, mode=mode, shared_order=shared)
                after = named.fuse(ctx, post_base, [grp], [fname])
                before = named.contract(ctx, pre, other, mode=mode, shared_order=shared) if side == "a" else named.contract(ctx, other, pre, mode=mode, shared_order=shared)
                ctx.count("route", "fuse-free-before-after")
                if not nz and not before.x.blocks and not after.x.blocks:
                    ctx.count("route", "empty-both")
                if after.names != before.names:
                    after = named.transpose(ctx, after, before.names)
                if same(ctx, f"fuse free legs {grp} of {side} before vs after contracting, mode={mode}", after, before, lr, wit, prefused=True) and nz:
                    ctx.nontrivial(("free", side, mode, sig, tuple(grp)))
                    if sole:
                        ctx.sample({"route": "fuse-free-before-vs-after", "sole_free_leg": True, "mode": mode, "group": grp, "a": describe(a), "b": describe(b)}, limit=3)
    except Surprise as e:
        ctx.evaluated()
        ctx.violation(e.mech, str(e), wit)
    except Raised as e:
        if not a.blocks or not b.blocks:
            ctx.count("refusal", "degenerate-empty-operand")
            return
        ctx.violation(f"{e.op}-raises-{e.outcome.excname}", str(e), wit)


def run(ctx):
    hooks = Hooks(ctx)
    hooks.install_plan_hook()
    # small stream first: the large one may run into the wall-clock cap of the thorough tier
    for _, rng in ctx.cases("many-legs", ctx.budget(1200, 24000)):
        ctx.run_case(case, ctx, rng, True)
    for _, rng in ctx.cases("pairs", ctx.budget(48000, 900000)):
        ctx.run_case(case, ctx, rng)
    hooks.uninstall()
