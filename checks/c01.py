"""C01 — every result is a valid symmetric array (charge conservation is closed)."""
from symv import gen
from symv import refsym as R
from symv.audit import audit_any
from symv.dense import describe, is_array, is_fermionic, is_vector, phases_of, struct_sig
from symv.program import Program

META = {
    "level": "exploration",
    "level_text": "Random programs (10-40 public operations over a pool of values, all five symmetries incl. Z4, static and generic classes, abelian and fermionic, float/complex) are executed through the client facade; EVERY returned array / block vector / tuple member is audited by an independent structural oracle written from the statement with the harness's own group arithmetic: sorted charge tables with positive integer sizes and valid labels, every block in a charge-conserving sector with the shape its indices prescribe, fused indices whose sub-index table partitions them exactly (recursively), pending-sign keys charge conserving with values +-1, label count parity = charge parity. The library's own check() is never consulted (left off; thorough tier also runs half of the workers with SYMMRAY_DEBUG=1 to see that debug mode changes nothing). Results that fail the audit are not fed back into the pool. Later additions: the library's own random constructors (utils.get_rand / rand_index / get_rand_blockvector, every documented option) and short programs started from them; ~100 operation kinds incl. copy / pickle round trips, charged solves, ragged sums, option phase=False; unusual constructor forms (numpy-integer labels, strided blocks, stored +1 signs, dormant signs, stored zero blocks); call forms rewritten by the client-boundary shim. Round 9: user-defined symmetries (Z3, BoseFermi) in 6% of the programs; fuse results of 5-8-leg sparse arrays (groups of 4-7 axes, whole branches missing, every strategy) audited.",
    "technique": "runtime monitoring: invariant oracle on every value crossing the client boundary, random API programs",
    "rule": (
        "one evaluation = one audited return value of one program step. Non-trivial = the result has >=2 blocks, or a fused index, or a non-empty pending-sign table, or odd parity; "
        "distinct by (operation, symmetry, class, index-structure signature)."
    ),
    "anchors": ["abelian_core.AbelianArray.fuse", "abelian_core.AbelianArray.unfuse", "abelian_core._tensordot_blockwise", "abelian_core.AbelianArray.expand_dims", "abelian_core.AbelianArray.squeeze", "fermionic_core.FermionicArray._map_blocks", "fermionic_core.resolve_combined_oddpos", "linalg.svd_truncated", "linalg.qr"],
    "floors": {
        "quick": {"evaluations": 15000, "distinct_nontrivial": 4000, "tables": {"programs": 600, "symmetry/Z4": 200, "kind/fermionic": 5000, "kind/generic": 2000, "feature/fuse-group-of-4-or-more-axes": 1500}},
        "thorough": {"evaluations": 600000, "distinct_nontrivial": 100000, "tables": {"programs": 20000}},
    },
    "wall": {"quick": 900, "thorough": 1700},
    "debug_shards": {"thorough": 2},
}


def nontrivial(v):
    if not is_array(v):
        return False
    return len(v.blocks) >= 2 or any(ix.subinfo is not None for ix in v.indices) or bool(phases_of(v)) or (is_fermionic(v) and R.par(R.symname(v), v.charge) == 1 if R.valid(R.symname(v), v.charge) else False)


def run_program(ctx, rng):
    dtype = rng.choice(["float64", "float64", "complex128", "float32"])
    prog = Program(ctx, rng, dtype=dtype, values=rng.choice(["int", "gauss"]))
    ctx.count("programs", "started")
    ctx.count("symmetry", prog.sym)
    for _ in range(rng.randint(2, 4)):
        prog.pool.append(prog.fresh())
    nsteps = rng.randint(10, 40)
    trace = []
    for step in range(nsteps):
        st = prog.pick()
        if st is None:
            break
        name, operands, f, info = st
        trace.append(name)
        o = ctx.call(f, *operands)
        ctx.count("op", name)
        if not o.ok:
            prog.failed(operands, info)
            empties = any((is_array(v) or is_vector(v)) and not v.blocks for v in operands)
            if empties:
                ctx.count("refusal", "degenerate-empty-operand")
            else:
                ctx.count("raises", f"{name}:{o.excname}")
            continue
        res = o.value
        vals = res if isinstance(res, (tuple, list)) else [res]
        if not any(is_array(v) or is_vector(v) for v in vals):
            continue
        ctx.evaluated()
        ctx.count("kind", "fermionic" if prog.ferm else "abelian")
        ctx.count("kind", "generic" if prog.kind != "static" else "static")
        errs = audit_any(res)
        if errs:
            mech = f"invalid-result:{name.split(':')[0]}"
            if name == "expand_dims_charge" and prog.ferm and R.par(prog.sym, info.get("expand_charge")) and all("odd-position labels" in e for e in errs):
                mech = "expand_dims-odd-charge-labels"
            wit = {"op": name, "trace": trace[-12:], "operands": [describe(v, True) for v in operands if is_array(v)], "result": describe(res)}
            ctx.violation(mech, f"{name} returned an invalid array: {'; '.join(errs[:3])}", wit)
            continue
        for v in vals:
            if nontrivial(v):
                ctx.nontrivial((name, struct_sig(v)))
        if step % 7 == 0:
            ctx.sample({"op": name, "trace_so_far": trace[-6:], "result": describe(res)}, limit=3)
        prog.admit(res)
        # operands modified in place may have become invalid too
        if info.get("inplace"):
            for v in operands:
                e2 = audit_any(v)
                if e2:
                    ctx.violation(f"invalid-after-inplace:{name}", "; ".join(e2[:3]), {"op": name, "trace": trace[-12:]})
    ctx.count("programs", "completed")


def many_legs_case(ctx, rng):
    """Arrays with 5-8 legs (two or three charges each, a share of the blocks dropped, whole
    branches dropped) put through fuse with every strategy, groups of 4-7 axes beside a
    spectator leg or further groups, then unfused: every result must be a valid array."""
    sr = ctx.sr
    sym = rng.choice(["Z2", "Z2", "U1", "U1", "Z4", "Z2Z2", gen.pick_sym(rng)])
    ferm = rng.random() < 0.4
    wide = sym in ("U1", "Z4", "Z3") and rng.random() < 0.6
    nd = rng.randint(5, 6) if wide else rng.randint(6, 8)
    pool = gen.POOL[sym]
    idx = []
    for _ in range(nd):
        cs = rng.sample(pool, min(len(pool), 3 if wide else 2))
        idx.append(sr.BlockIndex({c: (rng.randint(1, 3) if rng.random() < 0.3 else 1) for c in sorted(cs)}, dual=rng.random() < 0.5))
    x = gen.make_array(sr, rng, sym, idx, fermionic=ferm, values=gen.Values(rng, "int", rng.choice(["float64", "complex128"])), sparsity=rng.choice([0.0, 0.3, 0.3, 0.6]), label=5)
    if not x.blocks:
        return
    axes = list(range(nd))
    rng.shuffle(axes)
    k = rng.randint(4, nd - 1)
    long_ = tuple(axes[:k])
    rest = axes[k:]
    if rng.random() < 0.5 and len(x.blocks) > 2:
        # drop one whole branch of the long group (all blocks sharing its leading charges)
        s0 = rng.choice(sorted(x.blocks, key=repr))
        pre = tuple(s0[a] for a in long_[:2])
        for s_ in [s_ for s_ in x.blocks if tuple(s_[a] for a in long_[:2]) == pre]:
            if len(x.blocks) > 1:
                del x.blocks[s_]
                x.phases.pop(s_, None) if ferm else None
    groups = [long_]
    if rest and rng.random() < 0.7:
        g2 = tuple(rest[: rng.randint(1, len(rest))])
        groups = [long_, g2] if rng.random() < 0.65 else [g2, long_]
    mode = "auto" if ferm else rng.choice(["auto", "insert", "concat", "concat"])
    wit = {"op": f"fuse(mode={mode})", "groups": [list(g) for g in groups], "x": describe(x)}
    o = ctx.call(lambda: x.fuse(*groups) if ferm else x.fuse(*groups, mode=mode))
    ctx.count("op", f"many-legs-fuse:{mode}")
    if not o.ok:
        ctx.violation(f"fuse-raises-{o.excname}", f"fuse{groups} mode={mode}: {o.exc!r}", wit)
        return
    ctx.evaluated()
    errs = audit_any(o.value)
    if errs:
        ctx.violation("invalid-result:fuse", f"fuse{[list(g) for g in groups]} (mode={mode}) of a {nd}-leg array returned an invalid array: {'; '.join(errs[:3])}", wit)
        return
    ctx.count("feature", "fuse-group-of-4-or-more-axes")
    if len(groups) > 1 and groups[0] is long_:
        ctx.count("feature", "long-group-first-of-several")
    ctx.nontrivial(("many-legs", struct_sig(x), tuple(groups), mode))
    ou = ctx.call(lambda: o.value.unfuse_all())
    ctx.count("op", "many-legs-unfuse_all")
    if ou.ok:
        ctx.evaluated()
        errs = audit_any(ou.value)
        if errs:
            ctx.violation("invalid-result:unfuse_all", "; ".join(errs[:3]), wit)
    else:
        ctx.violation(f"unfuse_all-raises-{ou.excname}", repr(ou.exc), wit)


def utils_case(ctx, rng):
    """The library's own random constructors (symmray.utils) are public operations too: what
    they return must be valid, for every documented option."""
    from symv.audit import audit_index

    sr = ctx.sr
    sym = rng.choice(["Z2", "U1", "Z2Z2", "U1U1"])
    nd = rng.randint(0, 4)

    def dim():
        r = rng.random()
        if r < 0.15:
            cs = rng.sample(gen.POOL[sym], rng.randint(1, min(3, len(gen.POOL[sym]))))
            return {c: rng.randint(1, 3) for c in sorted(cs)}
        return rng.choice([1, 1, 2, 3, 4, 5, 6, 8])

    shape = tuple(dim() for _ in range(nd))
    nsub = rng.randint(1, 3)
    subsizes = rng.choice([None, None, "equal", "maximal", "minimal", tuple(rng.randint(1, 3) for _ in range(nsub))])
    duals = rng.choice([None, None, "equals", [rng.random() < 0.5 for _ in range(nd)]])
    ferm = rng.random() < 0.4
    kw = dict(duals=duals, seed=rng.randint(0, 10**6), dist=rng.choice(["normal", "uniform"]), fermionic=ferm, subsizes=subsizes)
    if rng.random() < 0.3:
        kw["charge"] = R.identity(sym)
    if ferm and rng.random() < 0.5:
        kw["oddpos"] = rng.randint(1, 50)
    wit = {"call": f"utils.get_rand({sym!r}, {shape!r}, " + ", ".join(f"{k}={v!r}" for k, v in kw.items()) + ")"}
    which = rng.random()
    if which < 0.7:
        o = ctx.call(sr.utils.get_rand, sym, shape, **kw)
        name = "utils.get_rand"
    elif which < 0.9:
        d = dim() if rng.random() < 0.8 else rng.choice([1, 2])
        kw2 = dict(dual=rng.choice([None, True, False]), subsizes=subsizes, seed=kw["seed"])
        wit = {"call": f"utils.rand_index({sym!r}, {d!r}, " + ", ".join(f"{k}={v!r}" for k, v in kw2.items()) + ")"}
        o = ctx.call(sr.utils.rand_index, sym, d, **kw2)
        name = "utils.rand_index"
    else:
        size = rng.randint(1, 12)
        bs = rng.choice([0.25, 0.5, 1, 2, 3])
        wit = {"call": f"utils.get_rand_blockvector({size}, block_size={bs})"}
        o = ctx.call(sr.utils.get_rand_blockvector, size, block_size=bs, seed=kw["seed"])
        name = "utils.get_rand_blockvector"
    ctx.count("op", name)
    if not o.ok:
        # explicit sub-sizes that do not fit the requested size etc. may be refused
        ctx.count("raises", f"{name}:{o.excname}")
        return
    ctx.evaluated()
    ctx.count("utils", f"subsizes={subsizes if not isinstance(subsizes, tuple) else 'tuple'}")
    res = o.value
    if name == "utils.rand_index":
        errs = audit_index(res, sym)
    else:
        errs = audit_any(res)
    if errs:
        ctx.violation(f"invalid-result:{name}", f"{wit['call']} returned an invalid {'index' if name.endswith('index') else 'array'}: {'; '.join(errs[:3])}", wit)
        return
    if name == "utils.get_rand" and is_array(res) and nontrivial(res):
        ctx.nontrivial((name, struct_sig(res)))
    if name == "utils.get_rand" and is_array(res) and res.blocks and res.ndim <= 4 and rng.random() < 0.5:
        # carry on: a short program that starts from this array (charge labels as the library
        # itself makes them)
        prog = Program(ctx, rng, sym=sym, fermionic=ferm, dtype="float64", values="gauss", kind="static")
        prog.pool.append(res)
        trace = [name]
        for step in range(rng.randint(3, 10)):
            st = prog.pick()
            if st is None:
                break
            nm, operands, f, info = st
            trace.append(nm)
            o2 = ctx.call(f, *operands)
            ctx.count("op", nm)
            if not o2.ok:
                prog.failed(operands, info)
                ctx.count("raises", f"{nm}:{o2.excname}")
                continue
            if not any(is_array(v) or is_vector(v) for v in (o2.value if isinstance(o2.value, (tuple, list)) else [o2.value])):
                continue
            ctx.evaluated()
            e3 = audit_any(o2.value)
            if e3:
                mech = f"invalid-result:{nm.split(':')[0]}"
                if nm == "expand_dims_charge" and ferm and R.par(sym, info.get("expand_charge")) and all("odd-position labels" in e for e in e3):
                    mech = "expand_dims-odd-charge-labels"
                ctx.violation(mech, f"{nm} (program started from {wit['call']}) returned an invalid array: {'; '.join(e3[:3])}", dict(wit, trace=trace[-10:]))
                break
            prog.admit(o2.value)


def run(ctx):
    # small streams first: the large one may run into the wall-clock cap of the thorough tier
    for _, rng in ctx.cases("many-legs", ctx.budget(2500, 50000)):
        ctx.run_case(many_legs_case, ctx, rng)
    for _, rng in ctx.cases("utils", ctx.budget(15000, 300000)):
        ctx.run_case(utils_case, ctx, rng)
    for _, rng in ctx.cases("programs", ctx.budget(36000, 700000)):
        ctx.run_case(run_program, ctx, rng)
