"""C15 — results do not depend on call history, caches or threads."""
import json
import os
import random
import subprocess
import sys
import threading
import time

import numpy as np

from symv import c15ops, gen
from symv.dense import describe, snapshot
from symv.hooks import Hooks

META = {
    "level": "exploration",
    "level_text": "Five monitors. (1) Hook on the fuse-plan cache: every plan handed out (hit or miss) equals a fresh uncached computation, and every lru_cache'd helper equals its uncached function, while families of arrays that differ in exactly one attribute (direction, block size, charge label, missing sector, sub-index structure or sub-sector table behind an equal outer table, symmetry over equal labels, class kind, grouping, conj after the hash key was memoised) are visited in random orders with cache sizes {1,2,3,8192} and sector limits {1,512}; each result is also judged by the C05 placement oracle. (2) Black-box differential: one op list evaluated cold (cache off, all caches cleared before each op), warm, evicting, and in fresh subprocesses with SYMMRAY_FUSE_CACHE_MAXSIZE in {0,1,unset,junk} x MAXSECTORS in {1,unset}: digests identical. (3) default_tensordot_mode: nested, left normally and through exceptions (including a failing contraction), set_default(None) no-op; the global is read back after each. (4) 4-16 threads run out-of-place fuse/reshape/contraction/svd/transpose on shared arrays with cache size 2, a 1e-6 s switch interval and yields injected at 5% of executed library lines; every result digest must equal the sequential reference, no thread may raise, shared operands are unchanged. (5) The repository's own test suite is run once with the hooks of (1) attached (pytest plugin), as one more history. Verdicts are on logical results only; counters of hits, evictions, injected switches, distinct switch sites and interleaving signatures are reported. Later additions: nested fuse-chain, hash-twin (-1/-2), stripped-twin and lazy-Hermitian families; fresh-object thread rounds (never-hashed indices, yields at 50% inside hashkey); decorator form of the mode context re-entered recursively; fuse / shrink in place / fuse again; mutate the previous result then repeat every call; cache-key digest collision hunt. Round 9: the plain setter called inside the mode context (entered with the mode in force or another one), with and without an error afterwards.",
    "technique": "runtime monitoring: internal state hook (cached vs recomputed plan), differential digests across cache configurations / histories / processes, thread stress with injected yields vs sequential reference",
    "rule": (
        "evaluations = hooked plan comparisons + differential op comparisons + mode-context checks + thread-run op comparisons. Non-trivial = a fuse-plan cache HIT served while a near-identical sibling populated / occupies the cache "
        "(monitor 1/2), or a thread-run op whose result was compared after >=1 injected switch inside the fuse path (monitor 4); distinct by (family tag, grouping, cache configuration) resp. (op, interleaving signature)."
    ),
    "anchors": ["abelian_core.cached_fuse_block_info", "abelian_core.calc_fuse_block_info", "abelian_core.BlockIndex.hashkey", "abelian_core.SubIndexInfo.hashkey", "abelian_core.default_tensordot_mode", "abelian_core.set_default_tensordot_mode"],
    "floors": {
        "quick": {"evaluations": 8000, "distinct_nontrivial": 300, "tables": {"hook/plan-compared": 3000, "hook/plan-cache-hit": 800, "m2/configs-compared": 6, "m2/subprocess-configs": 8, "m3/context-checks": 200, "m4/ops-compared": 1500, "m4/injected-switches": 5000, "m4/switches-in-fuse-path": 1000, "m1/evictions": 100, "m1/prefused-extent-families": 40, "m5/repo-tests:plan-compared": 200}},
        "thorough": {"evaluations": 100000, "distinct_nontrivial": 3000, "tables": {"m4/injected-switches": 100000, "m4/switches-in-fuse-path": 20000}},
    },
    "wall": {"quick": 900, "thorough": 1700},
    "workers": {"quick": 8, "thorough": 12},
}


# ------------------------------------------------------------------------------ monitor 1
def monitor1(ctx, hooks, rng):
    from checks.c05 import groupings, judge_fuse

    sr = ctx.sr
    r_ = rng.random()
    if r_ < 0.15:
        fam = c15ops.prefused_extent_family(sr, rng)
        if len(fam) < 2:
            return
        ctx.count("m1", "prefused-extent-families")
    elif r_ < 0.22:
        fam = c15ops.hash_twin_family(sr, rng)
        if len(fam) < 2:
            return
        ctx.count("m1", "hash-twin-families")
    elif r_ < 0.3:
        fam = c15ops.nested_chain_family(sr, rng)
        fam = [(t, x) for t, x in fam if t.endswith("depth2")] if rng.random() < 0.5 else fam
        if len(fam) < 2:
            return
        fam = fam + [tw for tw in ((("stripped:" + t), c15ops.stripped_twin(sr, x)) for t, x in fam[:2]) if tw[1] is not None]
        ctx.count("m1", "nested-chain-families")
    else:
        fam = c15ops.family(sr, rng) + (c15ops.subindex_twins(sr, rng) if r_ < 0.65 else [])
    cs = rng.choice([1, 2, 3, 8192])
    ms = rng.choice([1, 512, 512])
    hooks.set_cache(maxsize=cs, maxsectors=ms, clear=rng.random() < 0.3)
    ctx.count("m1", f"cache={cs},maxsectors={ms}")
    nd = min(x.ndim for _, x in fam)
    gsets = groupings(rng, nd, 3)
    visits = [(t, x, g) for t, x in fam for g in gsets if all(ax < x.ndim for grp in g for ax in grp)]
    visits = visits * 2  # repeats produce hits
    rng.shuffle(visits)
    ac = hooks.ac
    for tag, x, g in visits:
        # (cache statistics are read from library internals when they exist; verdicts never
        # depend on them)
        _cache = getattr(ac, "_fuseinfos", {})
        hit0, len0 = getattr(ac, "_fi_hit", 0), len(_cache)
        keys0 = set(_cache)
        o = ctx.call(lambda: x.fuse(*g))
        ctx.evaluated()
        if len(_cache) <= len0 and set(_cache) != keys0:
            ctx.count("m1", "evictions")
        wit = {"family_member": tag, "groups": repr(g), "x": describe(x, True), "cache_size": cs}
        if not o.ok:
            ctx.violation(f"fuse-raises-{o.excname}", repr(o.exc), wit)
            continue
        v = judge_fuse(ctx, x, g, o.value, wit, f"[{tag}] fuse{g} cache={cs}")
        if v is not False and (getattr(ac, "_fi_hit", 0) > hit0 or not hasattr(ac, "_fi_hit")):
            ctx.nontrivial(("m1", tag, g, cs, ms))
            ctx.sample({"monitor": "plan-cache hook", "family_member": tag, "groups": repr(g), "cache_size": cs, "served_from_cache": True, "siblings_in_family": [t for t, _ in fam]}, limit=2)


# ------------------------------------------------------------------------------ monitor 2
def monitor2(ctx, hooks, seed, n):
    sr = ctx.sr
    arrays, ops = c15ops.make_ops(sr, seed, n)
    snaps = [snapshot(x) for _, x in arrays]
    results = {}
    # (a) cold: cache disabled, every cache cleared before each op
    hooks.set_cache(maxsize=0, clear=True)
    cold = []
    for op in ops:
        hooks.clear_all_caches()
        cold.append(c15ops.run_ops([op])[0])
    results["cold"] = cold
    for name, size in (("warm", 8192), ("evicting-1", 1), ("evicting-2", 2)):
        hooks.set_cache(maxsize=size, maxsectors=512, clear=(name == "warm"))
        results[name] = c15ops.run_ops(ops)
        results[name + "-again"] = c15ops.run_ops(ops)
    hooks.set_cache(maxsize=8192, maxsectors=1)
    results["maxsectors-1"] = c15ops.run_ops(ops)
    # results are the caller's: mutating what an earlier call returned must not change what
    # the same call returns next time
    hooks.set_cache(maxsize=8192, maxsectors=512, clear=True)
    again = []
    for op in ops:
        try:
            r0 = op[1]()
            for v in (r0 if isinstance(r0, (tuple, list)) else [r0]):
                if hasattr(v, "apply_to_arrays") and hasattr(v, "blocks"):
                    v.apply_to_arrays(lambda b: b * 0.0 - 7.0)
                    if getattr(v, "fermionic", False):
                        v.phase_global(inplace=True)
                elif isinstance(v, np.ndarray) and v.flags.writeable:
                    v[...] = -7.0
        except Exception:
            pass
        again.append(c15ops.run_ops([op])[0])
    results["after-mutating-the-previous-result-in-place"] = again
    order = list(range(len(ops)))
    random.Random(seed).shuffle(order)
    hooks.set_cache(maxsize=2, maxsectors=512)
    shuffled = c15ops.run_ops([ops[i] for i in order])
    res_sh = [None] * len(ops)
    for pos, i in enumerate(order):
        res_sh[i] = shuffled[pos]
    results["evicting-2-shuffled-order"] = res_sh
    for name, dig in results.items():
        ctx.count("m2", "configs-compared")
        for k, (a, b) in enumerate(zip(cold, dig)):
            ctx.evaluated()
            if a != b:
                ctx.violation("result-depends-on-cache-history", f"op #{k} {ops[k][0]}: digest under '{name}' differs from the cold (cache-free) evaluation", {"op": ops[k][0], "config": name, "seed": seed})
                break
    if [snapshot(x) for _, x in arrays] != snaps:
        ctx.violation("shared-operand-changed", "an operand of the op list was modified", {"seed": seed})
    return cold


def monitor2_subprocess(ctx, seed, n, cold):
    from symv.load import REPO

    verif = os.path.dirname(os.path.dirname(os.path.abspath(__file__)))
    configs = []
    for msz in ("0", "1", None, "junk"):
        for msec in ("1", None):
            configs.append((msz, msec))
    for k, (msz, msec) in enumerate(configs):
        env = dict(os.environ)
        env.pop("SYMMRAY_FUSE_CACHE_MAXSIZE", None)
        env.pop("SYMMRAY_FUSE_CACHE_MAXSECTORS", None)
        if msz is not None:
            env["SYMMRAY_FUSE_CACHE_MAXSIZE"] = msz
        if msec is not None:
            env["SYMMRAY_FUSE_CACHE_MAXSECTORS"] = msec
        env["PYTHONPATH"] = verif
        env["SYMV_REPO"] = REPO
        out = os.path.join(verif, ".work", f"c15child-{os.getpid()}-{k}.json")
        os.makedirs(os.path.dirname(out), exist_ok=True)
        try:
            p = subprocess.run([sys.executable, "-m", "symv.c15ops", str(seed), str(n), out], env=env, cwd=verif, capture_output=True, text=True, timeout=120)
        except subprocess.TimeoutExpired:
            ctx.inconc("subprocess-timeout")
            continue
        ctx.count("m2", "subprocess-configs")
        if p.returncode != 0 or not os.path.exists(out):
            ctx.violation("import-or-run-fails-under-env-config", f"MAXSIZE={msz} MAXSECTORS={msec}: exit {p.returncode}: {p.stderr[-500:]}", {"MAXSIZE": msz, "MAXSECTORS": msec})
            continue
        rep = json.load(open(out))
        os.remove(out)
        want_size = {"0": 0, "1": 1, None: 8192, "junk": 8192}[msz]
        if rep["maxsize"] is None or rep["maxsectors"] is None:
            ctx.count("hook_unavailable", "cache-globals-in-subprocess")
        elif rep["maxsize"] != want_size or rep["maxsectors"] != (1 if msec == "1" else 512):
            ctx.violation("env-config-not-honoured", f"MAXSIZE={msz} -> {rep['maxsize']}, MAXSECTORS={msec} -> {rep['maxsectors']}", {"MAXSIZE": msz, "MAXSECTORS": msec})
        for j, (a, b) in enumerate(zip(cold, rep["digests"])):
            ctx.evaluated()
            if a != b:
                ctx.violation("result-depends-on-env-cache-config", f"op #{j}: digest in a fresh process with MAXSIZE={msz} MAXSECTORS={msec} differs from the cold in-process evaluation", {"MAXSIZE": msz, "MAXSECTORS": msec, "seed": seed, "op": j})
                break
        if rep["hits"]:
            ctx.count("m2", "subprocess-cache-hits", rep["hits"])


# ------------------------------------------------------------------------------ monitor 3
class Boom(Exception):
    pass


def monitor3(ctx, hooks, rng):
    sr = ctx.sr
    sym = rng.choice(gen.SYMS4)
    a, b, axa, axb = gen.contractible_pair(sr, rng, sym, rng.random() < 0.5, maxnd=3, values=gen.Values(rng, "int"))
    start = rng.choice(["auto", "fused", "blockwise"])
    sr.set_default_tensordot_mode(start)
    wit = {"start": start}

    def check(where):
        ctx.evaluated()
        ctx.count("m3", "context-checks")
        cur = hooks.default_mode()
        if cur != start or sr.get_default_tensordot_mode() != start:
            ctx.violation("default-mode-leaks", f"default contraction mode is {cur!r} after {where}, it was {start!r} before", dict(wit, where=where))
            sr.set_default_tensordot_mode(start)
            return False
        return True

    m1, m2 = rng.choice(["fused", "blockwise", "auto"]), rng.choice(["fused", "blockwise", "auto"])
    with sr.default_tensordot_mode(m1):
        if hooks.default_mode() != m1:
            ctx.violation("context-not-applied", f"inside the context the default is {hooks.default_mode()!r}, not {m1!r}", wit)
        with sr.default_tensordot_mode(m2):
            inner = ctx.call(sr.tensordot, a, b, axes=(axa, axb), mode=None, preserve_array=True)
        if hooks.default_mode() != m1:
            ctx.violation("default-mode-leaks", f"after a nested context the default is {hooks.default_mode()!r}, not {m1!r}", dict(wit, where="nested exit"))
    check("nested contexts")
    # explicit-mode result equals mode=None under the context
    expl = ctx.call(sr.tensordot, a, b, axes=(axa, axb), mode=m2, preserve_array=True)
    if inner.ok and expl.ok and c15ops.result_digest(inner.value) != c15ops.result_digest(expl.value):
        ctx.violation("mode-none-differs", f"mode=None under default {m2!r} differs from explicit mode={m2!r}", wit)
    # exception raised inside the block
    try:
        with sr.default_tensordot_mode(m1):
            raise Boom()
    except Boom:
        pass
    check("an exception raised inside the context")
    # failing contraction inside the block (bad mode string reaches the dispatcher)
    try:
        with sr.default_tensordot_mode("no-such-mode"):
            sr.tensordot(a, b, axes=(axa, axb), mode=None)
    except Exception:
        pass
    check("a failing contraction inside the context")
    # exception from a nested context
    try:
        with sr.default_tensordot_mode(m1):
            with sr.default_tensordot_mode(m2):
                sr.tensordot(a, b, axes=([0, 0, 0], [0]))  # malformed axes
    except Exception:
        pass
    check("an error inside nested contexts")
    # decorator form (the context object decorates a function): re-entered recursively, from a
    # second function decorated with the same object, and left through an exception
    deco = sr.default_tensordot_mode(m1)
    seen_inside = []

    @deco
    def rec(n, boom):
        seen_inside.append(hooks.default_mode())
        if n:
            rec(n - 1, boom)
        elif boom:
            raise Boom()
        return None

    @deco
    def outer(n, boom):
        seen_inside.append(hooks.default_mode())
        return rec(n, boom)

    for fn_, boom_ in ((rec, False), (outer, False), (rec, True), (outer, True)):
        depth_ = rng.randint(1, 3)
        try:
            fn_(depth_, boom_)
        except Boom:
            pass
        ctx.count("m3", "decorator-reentrant-calls")
        if not check(f"a function decorated with default_tensordot_mode({m1!r}) re-entered {depth_} times{' and left through an exception' if boom_ else ''}"):
            break
    if any(v != m1 for v in seen_inside):
        ctx.violation("context-not-applied", f"inside a decorated function the default was {sorted(set(seen_inside))}, expected {m1!r}", wit)
    # the plain setter called INSIDE a context (entered with the mode in force or another one),
    # with and without an error afterwards: leaving the context restores what was there before
    for boom_ in (False, True):
        mX = start if rng.random() < 0.5 else rng.choice(["fused", "blockwise", "auto"])
        m3 = rng.choice([m for m in ("fused", "blockwise", "auto") if m != start])
        try:
            with sr.default_tensordot_mode(mX):
                sr.set_default_tensordot_mode(m3)
                if hooks.default_mode() != m3:
                    ctx.violation("setter-not-applied", f"set_default_tensordot_mode({m3!r}) inside a context left {hooks.default_mode()!r}", wit)
                if boom_:
                    raise Boom()
        except Boom:
            pass
        ctx.count("m3", "setter-inside-context" + (":entered-with-the-mode-in-force" if mX == start else ""))
        check(f"a context entered with {mX!r} (in force before: {start!r}) whose body called set_default_tensordot_mode({m3!r})" + (" and raised" if boom_ else ""))
    sr.set_default_tensordot_mode(None)
    check("set_default_tensordot_mode(None)")
    sr.set_default_tensordot_mode("auto")


# ------------------------------------------------------------------------------ monitor 4
class YieldInjector:
    TOOL = 4

    def __init__(self, prefix, prob, seed):
        self.prefix = prefix
        self.prob = prob
        self.count = 0
        self.in_fuse = 0
        self.in_hashkey = 0
        self.pause = False
        self.sites = set()
        self.trace = []
        self.local = threading.local()
        self.seed = seed
        self.on = False

    def start(self):
        mon = sys.monitoring
        mon.use_tool_id(self.TOOL, "symv-yield")
        prefix = self.prefix
        inj = self

        def cb(code, line):
            fn = code.co_filename
            if not fn.startswith(prefix):
                return mon.DISABLE
            if inj.pause:
                return
            st = inj.local
            r = getattr(st, "rng", None)
            if r is None:
                r = st.rng = random.Random(f"{inj.seed}:{threading.get_ident()}")
            hk = code.co_name == "hashkey"
            if r.random() < (0.5 if hk else inj.prob):
                inj.count += 1
                if hk:
                    inj.in_hashkey += 1
                inj.sites.add((fn[len(prefix) :], line))
                if code.co_name in ("cached_fuse_block_info", "_fuse_core", "calc_fuse_block_info", "_fuse_blocks_via_insert", "hashkey"):
                    inj.in_fuse += 1
                if len(inj.trace) < 4000:
                    inj.trace.append(threading.get_ident())
                time.sleep(0)

        mon.register_callback(self.TOOL, mon.events.LINE, cb)
        mon.set_events(self.TOOL, mon.events.LINE)
        self.on = True

    def stop(self):
        if self.on:
            sys.monitoring.set_events(self.TOOL, 0)
            sys.monitoring.free_tool_id(self.TOOL)
            self.on = False


def monitor4(ctx, hooks, seed, nthreads, nops, rounds):
    """Rounds alternate between two set-ups.
    shared-hashed: the operands were already used by the sequential reference (their index
      hash keys are memoised); cache of size 2 (constant eviction).
    fresh-objects: operands rebuilt for the round (equal values, brand-new index objects whose
      hash keys have never been computed); the cache is large and pre-warmed sequentially with
      the ops on the 'stripped' twins only; every thread starts with the same ops on the
      fused-leg operands, so first-time memoisation happens concurrently."""
    from symv.load import REPO

    sr = ctx.sr
    arrays, ops = c15ops.make_ops(sr, seed, nops)
    snaps = [snapshot(x) for _, x in arrays]
    hooks.set_cache(maxsize=8192, maxsectors=512, clear=True)
    ref = c15ops.run_ops(ops)
    old_si = sys.getswitchinterval()
    sys.setswitchinterval(1e-6)
    inj = YieldInjector(os.path.join(REPO, "symmray") + os.sep, 0.05, seed)
    errors = []
    mism = []
    changed = []
    inj.start()
    try:
        for rd in range(rounds * 2):
            fresh = rd % 2 == 1
            if fresh:
                inj.pause = True
                hooks.set_cache(maxsize=8192, maxsectors=512, clear=True)
                r_arrays, r_ops = c15ops.make_ops(sr, seed, nops)
                r_snaps = [snapshot(x) for _, x in r_arrays]  # snapshot() does not touch hashkey()
                hooks.set_cache(maxsize=8192, maxsectors=512, clear=True)
                warm = [k for k, op in enumerate(r_ops) if op[2].startswith("stripped:")]
                for k in warm:
                    try:
                        r_ops[k][1]()
                    except Exception:
                        pass
                first = [k for k, op in enumerate(r_ops) if op[2].startswith("hermitian-lazy")] + [k for k, op in enumerate(r_ops) if ("stripped:" + op[2]) in {o[2] for o in r_ops}]
                inj.pause = False
                ctx.count("m4", "fresh-object-rounds")
                ctx.count("m4", "fresh-round-first-ops-on-fused-legs", len(first))
            else:
                r_arrays, r_ops, r_snaps, first = arrays, ops, snaps, []
                hooks.set_cache(maxsize=2, maxsectors=512, clear=True)
            start = threading.Barrier(nthreads)

            def work(tid, r_ops=r_ops, first=first):
                r = random.Random(f"{seed}:{rd}:{tid}")
                rest = [k for k in range(len(r_ops)) if k not in set(first)]
                r.shuffle(rest)
                order = list(first) + rest
                try:
                    start.wait(timeout=30)
                except threading.BrokenBarrierError:
                    pass
                for i in order:
                    c0 = inj.in_fuse
                    try:
                        d = c15ops.result_digest(r_ops[i][1]())
                    except Exception as e:
                        d = f"raise:{type(e).__name__}"
                        if d != ref[i]:
                            errors.append((tid, r_ops[i][0], repr(e), fresh))
                            continue
                    if d != ref[i]:
                        mism.append((tid, i, fresh))
                    ctx_counts.append(inj.in_fuse > c0)

            ctx_counts = []
            ths = [threading.Thread(target=work, args=(t,)) for t in range(nthreads)]
            for t in ths:
                t.start()
            for t in ths:
                t.join(timeout=300)
            if any(t.is_alive() for t in ths):
                ctx.inconc("thread-join-timeout")
            n_cmp = len(ctx_counts)
            ctx.evaluated(n_cmp)
            ctx.count("m4", "ops-compared", n_cmp)
            ctx.count("m4", "rounds")
            sig = tuple(inj.trace[-400:])
            tids = {t: k for k, t in enumerate(dict.fromkeys(sig))}
            ctx.nontrivial(("m4", seed, rd, tuple(tids[t] for t in sig)))
            inj.trace.clear()
            if [snapshot(x) for _, x in r_arrays] != r_snaps:
                changed.append(fresh)
    finally:
        inj.stop()
        sys.setswitchinterval(old_si)
    ctx.count("m4", "injected-switches", inj.count)
    ctx.count("m4", "switches-in-fuse-path", inj.in_fuse)
    ctx.count("m4", "switches-in-hashkey", inj.in_hashkey)
    ctx.count("m4", "distinct-switch-sites", len(inj.sites))
    ctx.count("m4", f"threads={nthreads}")
    for tid, desc, e, fresh in errors[:3]:
        ctx.violation("thread-raises", f"thread {tid}: {desc} raised {e} under concurrency (the sequential reference did not); {'fresh-object' if fresh else 'shared-hashed'} round", {"seed": seed, "op": desc})
    for tid, i, fresh in mism[:3]:
        ctx.violation("concurrent-result-differs", f"thread {tid}: op #{i} {ops[i][0]} returned a different result than the sequential evaluation ({'fresh-object' if fresh else 'shared-hashed'} round)", {"seed": seed, "op": ops[i][0], "threads": nthreads})
    if changed:
        ctx.violation("shared-operand-changed", "a shared operand was modified by concurrent out-of-place calls", {"seed": seed})
    ctx.sample({"monitor": "threads", "threads": nthreads, "ops": len(ops), "rounds": rounds * 2, "injected_switches": inj.count, "switches_in_fuse_path": inj.in_fuse, "switches_in_hashkey": inj.in_hashkey, "distinct_switch_sites": len(inj.sites), "mismatches": len(mism)}, limit=2)


def monitor5_repo_tests(ctx):
    """The repository's own test suite as a workload for hooks H1/H2 (one shard only)."""
    import glob

    from symv.load import REPO

    verif = os.path.dirname(os.path.dirname(os.path.abspath(__file__)))
    tests = os.path.join(REPO, "tests")
    if not os.path.isdir(tests):
        ctx.count("m5", "no-tests-dir")
        return
    prefix = os.path.join(verif, ".work", f"c15plugin-{os.getpid()}")
    os.makedirs(os.path.dirname(prefix), exist_ok=True)
    env = dict(os.environ, PYTHONPATH=f"{verif}{os.pathsep}{REPO}", SYMV_REPO=REPO, SYMV_PLUGIN_OUT=prefix, PYTHONDONTWRITEBYTECODE="1")
    sel = [] if not ctx.quick else ["-k", "fuse or tensordot or reshape or svd or qr"]
    try:
        p = subprocess.run([sys.executable, "-m", "pytest", "-q", "-x", "-p", "no:cacheprovider", "-p", "symv.pytest_plugin", "-n", "2", *sel, tests], cwd=REPO, env=env, capture_output=True, text=True, timeout=600)
    except subprocess.TimeoutExpired:
        ctx.inconc("repo-tests-timeout")
        return
    files = glob.glob(prefix + ".*.json")
    for f in files:
        rep = json.load(open(f))
        os.remove(f)
        for k, v in rep["tables"].get("hook", {}).items():
            ctx.count("m5", f"repo-tests:{k}", v)
        ctx.evaluated(rep["tables"].get("hook", {}).get("plan-compared", 0))
        for v in rep["violations"]:
            ctx.violation(v["mech"], "while running the repository's own tests: " + v["msg"], v.get("witness"))
    ctx.count("m5", "repo-test-runs")
    ctx.notes["repo_tests_tail"] = p.stdout.strip().splitlines()[-1][:200] if p.stdout.strip() else p.stderr[-200:]


def run(ctx):
    if ctx.shard == 0 and ctx.only is None:
        ctx.cur = ("repo-tests", 0)
        ctx.run_case(monitor5_repo_tests, ctx)
    hooks = Hooks(ctx)
    hooks.install_plan_hook()
    hooks.install_lru_hooks()
    for _, rng in ctx.cases("families", ctx.budget(640, 12000)):
        ctx.run_case(monitor1, ctx, hooks, rng)
    for idx, rng in ctx.cases("differential", ctx.budget(32, 400)):
        cold = ctx.run_case(monitor2, ctx, hooks, 1000 + idx, 40)
        if cold is not None and idx % ctx.nshards == ctx.shard and idx < ctx.nshards * ctx.n(1, 4):
            ctx.run_case(monitor2_subprocess, ctx, 1000 + idx, 40, cold)
    from symv.hooks import key_collision_hunt

    for _, rng in ctx.cases("key-collisions", ctx.budget(16, 160)):
        r_ = ctx.run_case(key_collision_hunt, ctx, hooks, rng, ctx.n(200000, 600000))
        if r_:
            ctx.evaluated(r_[0])
            ctx.count("m6", "cache-key-lookups", r_[0])
            ctx.count("m6", "digest-collisions-found", r_[1])
            ctx.count("m6", "collisions-replayed", r_[2])
    hooks.set_cache(maxsize=8192, maxsectors=512, clear=True)
    for _, rng in ctx.cases("mode-context", ctx.budget(3000, 60000)):
        ctx.run_case(monitor3, ctx, hooks, rng)
    hooks.uninstall()
    # threads: without the comparison hooks (they are not thread-aware); the oracle is the
    # sequential reference
    hooks2 = Hooks(ctx)
    old_timeout = ctx.case_timeout
    ctx.case_timeout = 600
    for idx, rng in ctx.cases("threads", ctx.budget(16, 160)):
        nthreads = rng.choice([4, 8, 16])
        ctx.run_case(monitor4, ctx, hooks2, 5000 + idx, nthreads, ctx.n(24, 40), ctx.n(2, 4))
    ctx.case_timeout = old_timeout
    hooks2.set_cache(maxsize=8192, maxsectors=512, clear=True)
