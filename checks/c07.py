"""C07 — reshape only regroups axes and is undone by reshaping back."""
import itertools

import numpy as np

from symv import gen
from symv import refsym as R
from symv.audit import audit
from symv.dense import describe, index_sig, is_fermionic, phases_of, struct_sig
from symv.hooks import Hooks

META = {
    "level": "exploration",
    "level_text": "Array level: for generated abelian and fermionic arrays (size-one axes of zero / non-zero charge, fused axes, sparsity) EVERY target shape reachable by merging adjacent axes and dropping size-one axes is requested; post-conditions (rank, axis sizes, exact sum of squares, bit-exact multiset of magnitudes) and the bit-exact round trip back to the original shape and indices are monitored; reshape to the current shape must be the identity. Routine level: the axis-matching routine is run on ALL shapes with <=5 axes over {1,2,3,4,6} x all reachable targets, forward and back, and its plan is executed by a shape simulator that must land exactly on the requested shape (exhaustive over that box in both tiers). Later additions: sibling arrays through the same 3-4 level merge chain and stepwise back, conj of the merged array unmerged level by level, mixed-dtype subjects (norm by exactly rounded summation), unfuse-and-merge requests, long-shape routine stream (6-9 axes). Round 9: runs of 5-8 adjacent axes merged into one and reshaped back, bit-exact, incl. fermionic sectors with six or more odd charges in the run.",
    "technique": "runtime monitoring: post-condition + round-trip oracle on arrays; exhaustive plan simulation for the axis-matching routine",
    "rule": (
        "array stream: one evaluation = one reshape call judged by post-conditions and (for reachable targets) the round trip; all reachable targets per generated array. "
        "routine stream: one evaluation = one calc_reshape_args call whose plan is simulated on the symbolic shape; all shapes <=5 axes over {1,2,3,4,6} x all reachable targets x both directions. "
        "Non-trivial (array stream) = target rank differs from the source rank and the array is sparse or has a non-zero-charge size-one axis; distinct by (structure, target)."
    ),
    "anchors": ["abelian_core.calc_reshape_args", "abelian_core.AbelianArray.reshape"],
    "floors": {
        "quick": {"evaluations": 60000, "distinct_nontrivial": 400, "tables": {"array/reshape": 3000, "array/roundtrip": 1500, "routine/forward": 30000, "routine/backward": 25000, "routine/with-fused-axes": 50000, "routine/long-forward": 50000, "routine/long-plans-with>=3-groups": 5000, "routine/plans-that-unfuse-and-expand": 2000, "array/expand-or-unfuse-target": 1500, "array/chain-roundtrip-depth-3": 500, "feature/nonzero-charge-singleton": 200, "feature/fused-axis": 200, "kind/fermionic": 500, "array/many-legs-roundtrip": 2000, "feature/merged-run-with->=6-odd-charges": 300, "history/derived-by-conj": 500, "history/legs-all-bra": 1000}},
        "thorough": {"evaluations": 300000, "distinct_nontrivial": 8000, "tables": {"array/reshape": 100000, "routine/forward": 40000}},
    },
    "exhaustive": {"quick": False, "thorough": False},
    "wall": {"quick": 900, "thorough": 1500},
}


def reachable_targets(shape):
    """All shapes obtained by merging runs of adjacent axes and/or deleting size-one axes."""
    n = len(shape)
    out = set()
    if n == 0:
        return {()}
    for cuts in itertools.product([0, 1], repeat=n - 1):
        runs = []
        cur = [shape[0]]
        for c, d in zip(cuts, shape[1:]):
            if c:
                runs.append(cur)
                cur = [d]
            else:
                cur.append(d)
        runs.append(cur)
        prods = [int(np.prod(r)) for r in runs]
        ones = [i for i, p in enumerate(prods) if p == 1]
        for drop in itertools.product([0, 1], repeat=len(ones)):
            dropped = {i for i, d in zip(ones, drop) if d}
            out.add(tuple(p for i, p in enumerate(prods) if i not in dropped))
    return out


# ---------------------------------------------------------------------------- routine level
def simulate(shape, subsizes, plan):
    """Apply (axs_unfuse, axs_fuse, axs_expand) to the symbolic shape. Each entry of the
    working list is (size, subsizes or None). Returns (final shape, final subsizes) or raises
    AssertionError with a description."""
    axs_unfuse, axs_fuse, axs_expand = plan
    cur = [(d, s) for d, s in zip(shape, subsizes)]
    for ax in axs_unfuse:
        d, s = cur[ax]
        assert s is not None, f"unfuse of axis {ax} that is not fused"
        cur[ax : ax + 1] = [(x, None) for x in s]
    for grouping in axs_fuse:
        flat = [a for g in grouping for a in g]
        assert flat == list(range(flat[0], flat[0] + len(flat))), f"fuse groups {grouping} not contiguous/increasing"
        assert all(len(g) >= 1 for g in grouping)
        new = []
        for g in grouping:
            sizes = tuple(cur[a][0] for a in g)
            p = 1
            for x in sizes:
                p *= x
            new.append((p, sizes if len(g) > 1 else cur[g[0]][1]))
        cur[flat[0] : flat[-1] + 1] = new
    for ax in axs_expand:
        assert 0 <= ax <= len(cur), f"expand position {ax} out of range"
        cur.insert(ax, (1, None))
    return tuple(d for d, _ in cur), tuple(s for _, s in cur)


def routine_case(ctx, ac, shape, k):
    for tgt in sorted(reachable_targets(shape)):
        if tgt == ():
            # every axis squeezed: known defect of the routine (IndexError), see KNOWN_FINDINGS
            pass
        ctx.evaluated()
        ctx.count("routine", "forward")
        none = (None,) * len(shape)
        try:
            plan = ac.calc_reshape_args(shape, tgt, none)
        except Exception as e:
            mech = "reshape-to-rank-0" if tgt == () and isinstance(e, IndexError) else f"routine-raises-{type(e).__name__}"
            ctx.violation(mech, f"calc_reshape_args({shape}, {tgt}) raised {e!r} for a reachable target", {"shape": shape, "target": tgt})
            continue
        try:
            got, subs = simulate(shape, none, plan)
            assert got == tgt, f"plan {plan} leads to {got}"
        except AssertionError as e:
            ctx.violation("routine-wrong-plan", f"calc_reshape_args({shape}, {tgt}): {e}", {"shape": shape, "target": tgt, "plan": repr(plan)})
            continue
        # and back, with the sub-sizes the forward trip produces
        ctx.evaluated()
        ctx.count("routine", "backward")
        try:
            plan2 = ac.calc_reshape_args(tgt, shape, subs)
            got2, _ = simulate(tgt, subs, plan2)
            assert got2 == shape, f"plan {plan2} leads to {got2}"
        except AssertionError as e:
            ctx.violation("routine-wrong-plan-back", f"calc_reshape_args({tgt}, {shape}, {subs}): {e}", {"shape": tgt, "target": shape, "subsizes": repr(subs)})
        except Exception as e:
            ctx.violation(f"routine-back-raises-{type(e).__name__}", f"calc_reshape_args({tgt}, {shape}, {subs}) raised {e!r}", {"shape": tgt, "target": shape, "subsizes": repr(subs)})


def routine_unreachable(ctx, ac, rng):
    """Arbitrary targets of the same total size: the routine either refuses (ValueError) or
    returns a plan that really produces the target."""
    n = rng.randint(1, 5)
    shape = tuple(rng.choice([1, 2, 3, 4, 6]) for _ in range(n))
    tot = int(np.prod(shape))
    m = rng.randint(1, 5)
    tgt = []
    rem = tot
    for _ in range(m - 1):
        divs = [d for d in (1, 2, 3, 4, 6, 8, 9, 12) if rem % d == 0]
        d = rng.choice(divs)
        tgt.append(d)
        rem //= d
    tgt.append(rem)
    rng.shuffle(tgt)
    tgt = tuple(tgt)
    ctx.evaluated()
    ctx.count("routine", "arbitrary-target")
    none = (None,) * n
    try:
        plan = ac.calc_reshape_args(shape, tgt, none)
    except ValueError:
        ctx.count("routine", "refused")
        return
    except Exception as e:
        if tgt in reachable_targets(shape):
            ctx.violation(f"routine-raises-{type(e).__name__}", f"calc_reshape_args({shape}, {tgt}) raised {e!r}", {"shape": shape, "target": tgt})
        else:
            ctx.count("routine", f"unclean-refusal-{type(e).__name__}")
        return
    try:
        got, _ = simulate(shape, none, plan)
        assert got == tgt, f"plan {plan} leads to {got}"
    except AssertionError as e:
        ctx.violation("routine-wrong-plan", f"calc_reshape_args({shape}, {tgt}): {e}", {"shape": shape, "target": tgt, "plan": repr(plan)})


def routine_long(ctx, ac, rng):
    """Shapes with 6-9 axes (beyond the exhaustive box): random merge/drop targets, forward and
    back, plan simulated exactly."""
    n = rng.randint(6, 9)
    shape = tuple(rng.choice([1, 1, 2, 2, 3]) for _ in range(n))
    # random composition into runs
    runs, cur = [], [shape[0]]
    for d in shape[1:]:
        if rng.random() < 0.45:
            cur.append(d)
        else:
            runs.append(cur)
            cur = [d]
    runs.append(cur)
    tgt = []
    for r in runs:
        p_ = int(np.prod(r))
        if p_ == 1 and rng.random() < 0.5:
            continue
        tgt.append(p_)
    tgt = tuple(tgt)
    if tgt == ():
        return
    ctx.evaluated()
    ctx.count("routine", "long-forward")
    none = (None,) * n
    try:
        plan = ac.calc_reshape_args(shape, tgt, none)
        got, subs = simulate(shape, none, plan)
        assert got == tgt, f"plan {plan} leads to {got}"
    except AssertionError as e:
        ctx.violation("routine-wrong-plan", f"calc_reshape_args({shape}, {tgt}): {e}", {"shape": shape, "target": tgt})
        return
    except Exception as e:
        ctx.violation(f"routine-raises-{type(e).__name__}", f"calc_reshape_args({shape}, {tgt}) raised {e!r} for a reachable target", {"shape": shape, "target": tgt})
        return
    if sum(1 for g in plan[1] for _ in g) >= 3:
        ctx.count("routine", "long-plans-with>=3-groups")
    # back: only when the parse is unambiguous (no fused axis with a size-one sub-index or size
    # equal to its first sub-size) - otherwise this is the known ambiguity
    if any(ss is not None and (1 in ss) for ss in subs):
        ctx.count("routine", "long-back-skipped-ambiguous")
        return
    ctx.evaluated()
    ctx.count("routine", "long-backward")
    try:
        plan2 = ac.calc_reshape_args(tgt, shape, subs)
        got2, _ = simulate(tgt, subs, plan2)
        assert got2 == shape, f"plan {plan2} leads to {got2}"
    except AssertionError as e:
        ctx.violation("routine-wrong-plan-back", f"calc_reshape_args({tgt}, {shape}, {subs}): {e}", {"shape": tgt, "target": shape, "subsizes": repr(subs)})
    except Exception as e:
        ctx.violation(f"routine-back-raises-{type(e).__name__}", f"calc_reshape_args({tgt}, {shape}, {subs}) raised {e!r}", {"shape": tgt, "target": shape, "subsizes": repr(subs)})


def routine_with_fused(ctx, ac, rng):
    """Shapes with already-fused axes (consistent ones: fused size == product of sub-sizes, all
    sub-sizes >= 2, so the known parse ambiguity cannot occur) and targets that unfuse some of
    them, merge adjacent axes, drop and INSERT size-one axes. The routine either refuses
    (ValueError) or returns a plan that leads exactly to the target."""
    n = rng.randint(1, 4)
    shape, subs = [], []
    for _ in range(n):
        r = rng.random()
        if r < 0.45:
            k = rng.randint(2, 3)
            ss = tuple(rng.choice([2, 3, 4]) for _ in range(k))
            shape.append(int(np.prod(ss)))
            subs.append(ss)
        elif r < 0.6:
            shape.append(1)
            subs.append(None)
        else:
            shape.append(rng.choice([2, 3, 4, 6]))
            subs.append(None)
    # decide per axis: unfuse or keep
    atoms = []
    for d, ss in zip(shape, subs):
        if ss is not None and rng.random() < 0.6:
            atoms += [("u", x) for x in ss]
        else:
            atoms.append(("k", d))
    # merge runs of adjacent KEPT plain axes only (merging across an unfused group is a
    # different parse); drop ones; insert ones
    tgt = []
    i = 0
    while i < len(atoms):
        kind, d = atoms[i]
        if kind == "k" and d != 1 and i + 1 < len(atoms) and atoms[i + 1][0] == "k" and rng.random() < 0.3:
            tgt.append(d * atoms[i + 1][1])
            i += 2
            continue
        if d == 1 and rng.random() < 0.5:
            i += 1
            continue
        tgt.append(d)
        i += 1
    for _ in range(rng.choice([0, 1, 1, 2])):
        tgt.insert(rng.randint(0, len(tgt)), 1)
    shape, subs, tgt = tuple(shape), tuple(subs), tuple(tgt)
    ctx.evaluated()
    ctx.count("routine", "with-fused-axes")
    try:
        plan = ac.calc_reshape_args(shape, tgt, subs)
    except ValueError:
        ctx.count("routine", "refused")
        return
    except Exception as e:
        ctx.count("routine", f"unclean-refusal-{type(e).__name__}")
        return
    if plan[0]:
        ctx.count("routine", "plans-that-unfuse")
    if plan[0] and plan[2]:
        ctx.count("routine", "plans-that-unfuse-and-expand")
    try:
        got, _ = simulate(shape, subs, plan)
        assert got == tgt, f"plan {plan} leads to {got}"
    except AssertionError as e:
        ctx.violation("routine-wrong-plan", f"calc_reshape_args({shape}, {tgt}, {subs}): {e}", {"shape": shape, "target": tgt, "subsizes": repr(subs), "plan": repr(plan)})


# ------------------------------------------------------------------------------ array level
def _wide(b):
    # (promote first: blocks of one array may have different element types, and a reshape may
    # legitimately store the same numbers in a wider type)
    b = np.asarray(b)
    return b.astype("complex128" if b.dtype.kind == "c" else "float64")


def sumsq(x):
    # exactly rounded sum (math.fsum): independent of how the elements are grouped in blocks
    import math

    tot = []
    for b in x.blocks.values():
        w = _wide(b).reshape(-1)
        tot.extend((w.real * w.real + w.imag * w.imag).tolist() if w.dtype.kind == "c" else (w * w).tolist())
    return math.fsum(tot)


def magnitudes(x):
    vs = [np.abs(_wide(b)).reshape(-1) for b in x.blocks.values()]
    if not vs:
        return np.zeros(0)
    v = np.concatenate(vs)
    return np.sort(v[v != 0])


def same_array(x, y):
    """bit-exact equality of content and indices (extra blocks of y must be exactly zero)."""
    if tuple(index_sig(i) for i in y.indices) != tuple(index_sig(i) for i in x.indices):
        return "indices differ"
    if y.charge != x.charge or type(x) is not type(y):
        return "charge/class differ"
    px, py = phases_of(x), phases_of(y)
    for sec, b in x.blocks.items():
        if sec not in y.blocks:
            if np.any(np.asarray(b) != 0):
                return f"block {sec} lost"
            continue
        if not np.array_equal(np.asarray(b) * px.get(sec, 1), np.asarray(y.blocks[sec]) * py.get(sec, 1)):
            return f"block {sec} differs"
    for sec, b in y.blocks.items():
        if sec not in x.blocks and np.any(np.asarray(b) != 0):
            return f"extra non-zero block {sec}"
    if is_fermionic(x) and [(o.label, o.dual) for o in x.oddpos] != [(o.label, o.dual) for o in y.oddpos]:
        return "labels differ"
    return None


def subsizes_of(x):
    return tuple(None if ix.subinfo is None else tuple(s.size_total for s in ix.subinfo.indices) for ix in x.indices)


def unfuses_preexisting(ac, x, target, pre_ids):
    """Does the routine's plan for x -> target unfuse an axis that was already fused in the
    ORIGINAL subject (identified by the identity of its sub-index record)? Such a parse is the
    known ambiguity of the routine (KNOWN_FINDINGS: reshape-unfuses-preexisting-fused-axis)."""
    shape = tuple(ix.size_total for ix in x.indices)
    try:
        plan = ac.calc_reshape_args(shape, tuple(target), subsizes_of(x))
    except Exception:
        # no plan to inspect: the ambiguity is possible iff a pre-existing fused axis has
        # sub-sizes that occur as a contiguous slice of the request
        tgt = tuple(target)
        for ix, sub in zip(x.indices, subsizes_of(x)):
            if sub and id(ix.subinfo) in pre_ids:
                if any(tgt[j : j + len(sub)] == sub for j in range(len(tgt) - len(sub) + 1)):
                    return True
        return False
    marks = [ix.subinfo is not None and id(ix.subinfo) in pre_ids for ix in x.indices]
    subs = list(subsizes_of(x))
    for ax in plan[0]:
        if ax < len(marks) and marks[ax]:
            return True
        k = len(subs[ax]) if ax < len(subs) and subs[ax] else 1
        marks[ax : ax + 1] = [False] * k
        subs[ax : ax + 1] = [None] * k
    return False


AMBIG = "reshape-unfuses-preexisting-fused-axis"


def make_subject(ctx, rng):
    sr = ctx.sr
    sym = gen.pick_sym(rng)
    ferm = rng.random() < 0.4
    nd = rng.randint(1, 4)
    idx = []
    feats = set()
    for _ in range(nd):
        r = rng.random()
        if r < 0.3:
            c = R.identity(sym) if rng.random() < 0.5 else rng.choice(gen.POOL[sym])
            if c != R.identity(sym):
                feats.add("nonzero-charge-singleton")
            else:
                feats.add("zero-charge-singleton")
            idx.append(sr.BlockIndex({c: 1}, dual=rng.random() < 0.5))
        else:
            idx.append(gen.rand_index(sr, rng, sym, maxc=2, maxd=2, p_single=0.0))
    x = gen.make_array(sr, rng, sym, idx, fermionic=ferm, values=gen.Values(rng, "unique"), sparsity=rng.choice([0.0, 0.3, 0.6]))
    if len(x.blocks) >= 2 and rng.random() < 0.12:
        nb, dts_ = gen.mix_block_dtypes(rng, dict(x.blocks))
        for k_, v_ in nb.items():
            x.blocks[k_] = v_
        feats.add("mixed-dtype-blocks")
    if x.ndim >= 2 and rng.random() < 0.35:
        k = rng.randint(0, x.ndim - 2)
        o = ctx.call(lambda: x.fuse((k, k + 1)))
        if o.ok:
            x = o.value
            feats.add("fused-axis")
    return x, feats


def many_legs_case(ctx, rng):
    """6-8 axes of size 2-3; a run of 5-8 adjacent axes is merged into one (all of them now and
    then) and the result is reshaped back to the original shape: shape, norm, magnitudes, and
    bit-exact restoration. All-bra and all-ket runs; fermionic sectors with six or more odd
    charges inside the merged run."""
    sr = ctx.sr
    sym = rng.choice(["Z2", "Z2", "U1", "Z4", "Z2Z2", gen.pick_sym(rng)])
    ferm = rng.random() < 0.6
    nd = rng.randint(6, 8)
    du = rng.choice(["random", "all-dual", "all-dual", "all-ket"])
    pool = gen.POOL[sym]
    idx = []
    for _ in range(nd):
        cs = sorted(rng.sample(pool, 2))
        idx.append(sr.BlockIndex({cs[0]: 1, cs[1]: 1 if rng.random() < 0.8 else 2}, dual={"random": rng.random() < 0.5, "all-dual": True, "all-ket": False}[du]))
    x = gen.make_array(sr, rng, sym, idx, fermionic=ferm, values=gen.Values(rng, "unique"), sparsity=rng.choice([0.0, 0.0, 0.3]), exotic=False)
    if not x.blocks:
        return
    shape = tuple(ix.size_total for ix in x.indices)
    k = rng.randint(5, nd)
    lo = rng.randint(0, nd - k)
    merged = 1
    for d in shape[lo : lo + k]:
        merged *= d
    target = shape[:lo] + (merged,) + shape[lo + k :]
    wit = {"x": describe(x), "target": list(target), "merged_axes": [lo, lo + k - 1]}
    o = ctx.call(lambda: x.reshape(target))
    ctx.evaluated()
    ctx.count("array", "many-legs-reshape")
    if not o.ok:
        ctx.violation(f"reshape-raises-{o.excname}", f"reshape {shape} -> {target}: {o.exc!r}", wit)
        return
    y = o.value
    ys = tuple(y.shape)
    # the merged axis lists only the fused charges some stored / allowed sector reaches, so it
    # may be SMALLER than the product (never larger); the other axes are exact
    if len(ys) != len(target) or ys[:lo] != target[:lo] or ys[lo + 1 :] != target[lo + 1 :] or ys[lo] > target[lo] or audit(y):
        ctx.violation("reshape-shape", f"reshape {shape} -> {target} gave shape {ys} / {audit(y)[:2]}", wit)
        return
    if sumsq(y) != sumsq(x) or not np.array_equal(magnitudes(y), magnitudes(x)):
        ctx.violation("reshape-changes-content", f"reshape {shape} -> {target}: sum of squares / magnitudes changed", wit)
        return
    ob = ctx.call(lambda: y.reshape(shape))
    ctx.count("array", "many-legs-roundtrip")
    if not ob.ok:
        ctx.violation(f"reshape-back-raises-{ob.excname}", f"reshape {shape} -> {target} -> {shape}: {ob.exc!r}", wit)
        return
    m = same_array(x, ob.value)
    if m:
        ctx.violation("reshape-roundtrip", f"reshape {shape} -> {target} -> {shape} does not restore the original: {m}", wit)
        return
    nodd = max((sum(R.par(sym, s_[a]) for a in range(lo, lo + k)) for s_ in x.blocks), default=0)
    if ferm and nodd >= 6:
        ctx.count("feature", "merged-run-with->=6-odd-charges")
    ctx.count("feature", f"merged-run:{du}")
    ctx.nontrivial(("many", struct_sig(x), lo, k))


def array_case(ctx, rng):
    import autoray as ar

    sr = ctx.sr
    x, feats = make_subject(ctx, rng)
    shape = tuple(ix.size_total for ix in x.indices)
    ferm = is_fermionic(x)
    sparse = len(x.blocks) < len(gen.all_sectors(R.symname(x), x.indices, x.charge))
    # identity
    o = ctx.call(lambda: x.reshape(shape))
    ctx.evaluated()
    ctx.count("array", "reshape")
    wit0 = {"x": describe(x, True), "target": list(shape)}
    ac = __import__("symmray.abelian_core", fromlist=["x"])
    pre_ids = {id(ix.subinfo) for ix in x.indices if ix.subinfo is not None}
    amb0 = unfuses_preexisting(ac, x, shape, pre_ids)
    if not o.ok:
        ctx.violation(AMBIG if amb0 else f"reshape-raises-{o.excname}", f"reshape to the current shape {shape}: {o.exc!r}", wit0)
    else:
        m = same_array(x, o.value)
        if m:
            ctx.violation(AMBIG if amb0 else "reshape-identity", f"reshape({shape}) of an array of that shape: {m}", wit0)
    targets = sorted(reachable_targets(shape))
    if len(targets) > ctx.n(10, 40):
        targets = rng.sample(targets, ctx.n(10, 40))
    n2 = sumsq(x)
    mags = magnitudes(x)
    # targets that also INSERT size-one axes and / or unfuse consistent fused axes
    extra = []
    for t in rng.sample(targets, min(3, len(targets))):
        t2 = list(t)
        for _ in range(rng.randint(1, 2)):
            t2.insert(rng.randint(0, len(t2)), 1)
        extra.append(tuple(t2))
    pure = list(shape)
    for _ in range(rng.randint(1, 2)):
        pure.insert(rng.randint(0, len(pure)), 1)
    pure = tuple(pure)
    extra.append(pure)
    subs = subsizes_of(x)
    consistent = [i for i, (ix, ss) in enumerate(zip(x.indices, subs)) if ss and all(d >= 2 for d in ss) and ix.size_total == int(np.prod(ss))]
    if consistent:
        i = rng.choice(consistent)
        t2 = list(shape[:i]) + list(subs[i]) + list(shape[i + 1 :])
        extra.append(tuple(t2))
        t3 = list(t2)
        t3.insert(rng.randint(i + 1, len(t3)), 1)
        extra.append(tuple(t3))
    # unfuse ONE fused axis (also a sparse-shrunk one, smaller than the product of its
    # sub-sizes) and in the same call merge two other adjacent axes: same number of axes
    intended = {}
    fusedax = [i for i, ss in enumerate(subs) if ss]
    if fusedax:
        i = rng.choice(fusedax)
        pieces = [(shape[k],) if k != i else tuple(subs[i]) for k in range(len(shape))]
        cand = [k for k in range(len(shape) - 1) if k != i and k + 1 != i]
        if cand:
            k = rng.choice(cand)
            merged = pieces[:k] + [(shape[k] * shape[k + 1],)] + pieces[k + 2 :]
            t4 = tuple(v for p_ in merged for v in p_)
        else:
            t4 = tuple(v for p_ in pieces for v in p_)
        # (size-one axes make such a request ambiguous for the axis-matching routine - the
        # territory of the known finding - so only requests without any size-one axis are made)
        if t4 not in extra and t4 not in targets and all(v >= 2 for v in t4) and all(v >= 2 for v in shape):
            extra.append(t4)
            intended[t4] = {id(x.indices[i].subinfo)}
            ctx.count("array", "unfuse-and-merge-target")
    for tgt in list(targets) + extra:
        is_extra = tgt in extra
        req = list(tgt)
        if req and rng.random() < 0.2 and tgt not in intended:
            # (not for requests that unfuse a sparse-shrunk axis: their sizes do not multiply to
            # the current total size, so -1 cannot be resolved)
            req[rng.randrange(len(req))] = -1
        via = rng.choice(["method", "method", "function", "autoray"])
        fn = {"method": lambda: x.reshape(tuple(req)), "function": lambda: sr.reshape(x, tuple(req)), "autoray": lambda: ar.do("reshape", x, tuple(req))}[via]
        o = ctx.call(fn)
        ctx.evaluated()
        ctx.count("array", "reshape")
        ctx.count("kind", "fermionic" if ferm else "abelian")
        for f in feats:
            ctx.count("feature", f)
        wit = {"x": describe(x, True), "target": req, "via": via}
        amb = unfuses_preexisting(ac, x, tgt, pre_ids - intended.get(tgt, set()))
        if amb:
            ctx.count("array", "ambiguous-parse-forward")

        def V(mech, msg, w, amb=amb):
            ctx.violation(AMBIG if amb else mech, msg, w)

        if not o.ok and is_extra and isinstance(o.exc, ValueError):
            # targets outside the round-trip clause (inserted ones / unfusing) may be refused cleanly
            ctx.count("array", "extra-target-refused")
            continue
        if not o.ok:
            mech = f"reshape-raises-{o.excname}"
            if tgt == () and o.excname == "IndexError":
                mech = "reshape-to-rank-0"
                amb = False
            ctx.violation(AMBIG if amb else mech, f"reshape{shape}->{tuple(req)} (reachable by merging/dropping) raised {o.exc!r}", wit)
            continue
        y = o.value
        errs = audit(y)
        if errs:
            V("reshape-invalid-result", "; ".join(errs[:3]), wit)
            continue
        if y.ndim != len(tgt):
            V("reshape-rank", f"rank {y.ndim} != requested {len(tgt)}", wit)
            continue
        if is_extra:
            ctx.count("array", "expand-or-unfuse-target")
        if any(ix.size_total > d for ix, d in zip(y.indices, tgt)):
            V("reshape-axis-larger", f"result shape {tuple(ix.size_total for ix in y.indices)} exceeds requested {tgt}", wit)
            continue
        if sumsq(y) != n2:
            V("reshape-norm", f"sum of squares {sumsq(y)} != {n2}", wit)
            continue
        if not np.array_equal(magnitudes(y), mags):
            V("reshape-magnitudes", "multiset of stored magnitudes changed", wit)
            continue
        if is_extra and tgt == pure and not any(ix.subinfo is not None for ix in x.indices):
            # only size-one axes were inserted: element for element the same tensor
            from symv.dense import embed

            ctx.count("array", "pure-insert-dense-compare")
            if embed(y).shape != tuple(tgt) or not np.array_equal(embed(y), embed(x).reshape(tgt)):
                V("reshape-insert-changes-values", f"reshape{shape}->{tgt} only inserts size-one axes but the dense values changed", wit)
                continue
        if is_extra:
            # post-conditions only: the round-trip clause covers merging / dropping targets
            if sparse or ferm:
                ctx.nontrivial((struct_sig(x), tgt, "extra"))
            continue
        # and back
        o2 = ctx.call(lambda: y.reshape(shape))
        ctx.evaluated()
        ctx.count("array", "roundtrip")
        amb_back = amb or unfuses_preexisting(ac, y, shape, pre_ids)
        if not o2.ok:
            V(f"reshape-back-raises-{o2.excname}", f"{shape}->{tgt}->{shape}: {o2.exc!r}", wit, amb_back)
            continue
        m = same_array(x, o2.value)
        if m:
            V("reshape-roundtrip", f"{shape}->{tgt}->{shape}: {m}", wit, amb_back)
            continue
        if len(tgt) != len(shape) and (sparse or "nonzero-charge-singleton" in feats):
            ctx.nontrivial((struct_sig(x), tgt))
            ctx.sample({"x": describe(x), "shape": list(shape), "target": list(tgt), "result_shape": [ix.size_total for ix in y.indices]}, limit=3)


def history_case(ctx, rng):
    """An array goes through a merge-and-back round trip; then an array DERIVED from it
    (conjugate, adjoint, transpose, negative, scaled, copy - it shares index objects, memoised
    keys and cached plans with the first) goes through the corresponding round trip. Leg
    patterns: all bra-like, all ket-like, mixed."""
    sr = ctx.sr
    sym = gen.pick_sym(rng)
    ferm = rng.random() < 0.5
    nd = rng.randint(2, 4)
    pattern = rng.choice(["all-bra", "all-bra", "all-ket", "random"])
    idx = [gen.rand_index(sr, rng, sym, maxc=2, maxd=2, p_single=0.1, dual={"all-ket": False, "all-bra": True}.get(pattern)) for _ in range(nd)]
    x = gen.make_array(sr, rng, sym, idx, fermionic=ferm, values=gen.Values(rng, "unique", rng.choice(["float64", "complex128"])), sparsity=rng.choice([0.0, 0.0, 0.3]))
    if not x.blocks:
        return
    k = rng.randrange(nd - 1)
    width = rng.randint(2, min(3, nd - k))

    def roundtrip(y, k, width, tag):
        shp = tuple(ix.size_total for ix in y.indices)
        m_ = 1
        for s_ in shp[k : k + width]:
            m_ *= s_
        tgt = shp[:k] + (m_,) + shp[k + width :]
        wit = {"step": tag, "pattern": pattern, "x": describe(x, True), "y": describe(y, True), "target": tgt}
        o = ctx.call(lambda: y.reshape(tgt))
        ctx.evaluated()
        ctx.count("array", "reshape")
        if not o.ok:
            ctx.violation(f"reshape-raises-{o.excname}", f"{tag}: {shp}->{tgt}: {o.exc!r}", wit)
            return False
        z = o.value
        zs = tuple(ix.size_total for ix in z.indices)
        if len(zs) != len(tgt) or any(a > b for a, b in zip(zs, tgt)) or sumsq(z) != sumsq(y):
            ctx.violation("reshape-chain-step", f"{tag}: {shp}->{tgt}: result shape {zs}, sum of squares {sumsq(z)} vs {sumsq(y)}", wit)
            return False
        o2 = ctx.call(lambda: z.reshape(shp))
        ctx.evaluated()
        ctx.count("array", "roundtrip")
        if not o2.ok:
            ctx.violation(f"reshape-back-raises-{o2.excname}", f"{tag}: {shp}->{tgt}->{shp}: {o2.exc!r}", wit)
            return False
        m = same_array(y, o2.value)
        if m:
            ctx.violation("reshape-roundtrip", f"{tag}: {shp}->{tgt}->{shp}: {m}", wit)
            return False
        return True

    if rng.random() < 0.85 and not roundtrip(x, k, width, "first array"):
        return
    op = rng.choice(["conj", "conj", "H", "transpose", "neg", "scale", "copy", "conj-conj"])
    perm = None
    if op == "conj":
        o = ctx.call(lambda: x.conj())
    elif op == "conj-conj":
        o = ctx.call(lambda: x.conj().conj())
    elif op == "H":
        o = ctx.call(lambda: x.H)
    elif op == "transpose":
        perm = list(range(nd))
        rng.shuffle(perm)
        o = ctx.call(lambda: x.transpose(tuple(perm)))
    elif op == "neg":
        o = ctx.call(lambda: -x)
    elif op == "scale":
        o = ctx.call(lambda: x * 2)
    else:
        o = ctx.call(lambda: x.copy())
    if not o.ok:
        return
    y = o.value
    k2 = k
    if op == "H":
        k2 = nd - k - width
    elif op == "transpose":
        k2 = rng.randrange(nd - 1)
        width = min(width, nd - k2)
    ctx.count("history", f"derived-by-{op}")
    ctx.count("history", f"legs-{pattern}")
    if roundtrip(y, k2, width, f"array derived by {op} from one reshaped before") and pattern != "random":
        ctx.nontrivial(("history", op, pattern, ferm, struct_sig(x), k, width))


def chain_case(ctx, rng):
    """Sibling arrays (same shape, same tables one level up, different innermost indices) go
    one after another through the same chain of merges, several levels deep, and stepwise
    back: every step back must restore the previous array exactly, whatever went before."""
    from symv import c15ops

    sr = ctx.sr
    ac = __import__("symmray.abelian_core", fromlist=["x"])
    fam = c15ops.nested_chain_family(sr, rng, fuse=False, values="unique")
    if len(fam) < 2:
        return
    rng.shuffle(fam)
    nd = fam[0][1].ndim
    # one merge plan for all siblings: positions of successive adjacent merges
    plan = []
    r = nd
    while r > rng.choice([1, 1, 2]):
        plan.append(0 if rng.random() < 0.6 else rng.randrange(r - 1))
        r -= 1
    ctx.count("array", "chain-families")
    for tag, x in fam[: rng.randint(2, len(fam))]:
        ys = [x]
        wit = {"sibling": tag, "x": describe(x, True), "merge_positions": plan, "family": [t for t, _ in fam]}
        ok = True
        for k in plan:
            y = ys[-1]
            shp = tuple(ix.size_total for ix in y.indices)
            tgt = shp[:k] + (shp[k] * shp[k + 1],) + shp[k + 2 :]
            o = ctx.call(lambda: y.reshape(tgt))
            ctx.evaluated()
            ctx.count("array", "reshape")
            pre_ids = {id(ix.subinfo) for ix in y.indices if ix.subinfo is not None}
            amb = unfuses_preexisting(ac, y, tgt, pre_ids)
            if not o.ok:
                ctx.violation(AMBIG if amb else f"reshape-raises-{o.excname}", f"chain step {shp}->{tgt}: {o.exc!r}", wit)
                ok = False
                break
            z = o.value
            zs = tuple(ix.size_total for ix in z.indices)
            # (a merged axis may come out smaller than the product: sectors excluded by charge)
            if len(zs) != len(tgt) or any(a > b for a, b in zip(zs, tgt)) or sumsq(z) != sumsq(y):
                ctx.violation(AMBIG if amb else "reshape-chain-step", f"chain step {shp}->{tgt}: result shape {tuple(ix.size_total for ix in z.indices)}, sum of squares {sumsq(z)} vs {sumsq(y)}", wit)
                ok = False
                break
            o2 = ctx.call(lambda: z.reshape(shp))
            ctx.evaluated()
            ctx.count("array", "roundtrip")
            ctx.count("array", f"chain-roundtrip-depth-{len(ys)}")
            amb_back = amb or unfuses_preexisting(ac, z, shp, pre_ids)
            if not o2.ok:
                ctx.violation(AMBIG if amb_back else f"reshape-back-raises-{o2.excname}", f"chain {shp}->{tgt}->{shp} (depth {len(ys)}): {o2.exc!r}", wit)
                ok = False
                break
            m = same_array(y, o2.value)
            if m:
                ctx.violation(AMBIG if amb_back else "reshape-roundtrip", f"chain {shp}->{tgt}->{shp} at depth {len(ys)} after sibling arrays went the same way: {m}", wit)
                ok = False
                break
            ys.append(z)
        if ok and len(ys) >= 3:
            ctx.nontrivial(("chain", tag, tuple(plan), struct_sig(x)))
        # the conjugate (or adjoint-free transpose) of the MERGED array must unmerge, level by
        # level, to the conjugates of the intermediate arrays
        if ok and len(ys) >= 3 and rng.random() < 0.5:
            zc = ctx.call(lambda: ys[-1].conj())
            if zc.ok:
                cur = zc.value
                for lvl in range(len(ys) - 2, -1, -1):
                    shp = tuple(ix.size_total for ix in ys[lvl].indices)
                    ob = ctx.call(lambda: cur.reshape(shp))
                    oc = ctx.call(lambda: ys[lvl].conj())
                    ctx.evaluated()
                    ctx.count("array", "chain-conj-then-unmerge")
                    if not ob.ok or not oc.ok:
                        if ob.ok != oc.ok:
                            ctx.violation("reshape-back-raises-after-conj", f"unmerging the conjugate of a {len(ys) - 1}-level merged array to {shp}: {(ob.exc if not ob.ok else oc.exc)!r}", wit)
                        break
                    if is_fermionic(x):
                        # (for fermionic arrays conjugation carries a reversal sign that depends on
                        # how the legs are grouped, so conj does not commute with merging sector
                        # by sector: only the index structure and the magnitudes are compared)
                        from symv.dense import embed as _embed

                        m = None
                        if tuple(index_sig(i) for i in oc.value.indices) != tuple(index_sig(i) for i in ob.value.indices):
                            m = "indices differ"
                        elif not np.array_equal(np.abs(_embed(oc.value)), np.abs(_embed(ob.value, oc.value.indices))):
                            m = "magnitudes differ"
                    else:
                        m = same_array(oc.value, ob.value)
                    if m:
                        ctx.violation("reshape-roundtrip-after-conj", f"conj of the merged array unmerged to level {lvl} {shp} differs from the conj of that level's array: {m}", wit)
                        break
                    cur = ob.value


def run(ctx):
    import random

    hooks = Hooks(ctx)
    hooks.install_lru_hooks()
    ac = hooks.ac
    for _, rng in ctx.cases("arrays", ctx.budget(50000, 900000)):
        ctx.run_case(array_case, ctx, rng)
    if not hasattr(ac, "calc_reshape_args"):
        # the axis-matching routine is an internal function: if the library no longer has it
        # under this name, only the array-level streams (public reshape) run
        hooks._missing("routine")
        for _, rng in ctx.cases("many-legs", ctx.budget(3000, 60000)):
            ctx.run_case(many_legs_case, ctx, rng)
        for _, rng in ctx.cases("chains", ctx.budget(4000, 80000)):
            ctx.run_case(chain_case, ctx, rng)
        for _, rng in ctx.cases("histories", ctx.budget(6000, 120000)):
            ctx.run_case(history_case, ctx, rng)
        hooks.uninstall()
        return
    # exhaustive routine box
    shapes = [s for n in range(0, 6) for s in itertools.product([1, 2, 3, 4, 6], repeat=n)]
    for k, shape in enumerate(shapes):
        if k % ctx.nshards != ctx.shard or not ctx.want("routine", k):
            continue
        if not ctx.time_left():
            ctx.count("budget", "routine:stopped_by_wall_clock")
            break
        ctx.run_case(routine_case, ctx, ac, shape, k)
    else:
        ctx.count("enum_complete", "routine-box")
    for _, rng in ctx.cases("many-legs", ctx.budget(3000, 60000)):
        ctx.run_case(many_legs_case, ctx, rng)
    for _, rng in ctx.cases("chains", ctx.budget(4000, 80000)):
        ctx.run_case(chain_case, ctx, rng)
    for _, rng in ctx.cases("histories", ctx.budget(6000, 120000)):
        ctx.run_case(history_case, ctx, rng)
    for _, rng in ctx.cases("routine-arbitrary", ctx.budget(100000, 1500000)):
        ctx.run_case(routine_unreachable, ctx, ac, rng)
    for _, rng in ctx.cases("routine-fused", ctx.budget(150000, 2000000)):
        ctx.run_case(routine_with_fused, ctx, ac, rng)
    for _, rng in ctx.cases("routine-long", ctx.budget(150000, 2000000)):
        ctx.run_case(routine_long, ctx, ac, rng)
    hooks.uninstall()
