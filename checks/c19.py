"""C19 — edge-wise Hamiltonians add up to the lattice Hamiltonian, each term once."""
import itertools

import numpy as np

from symv import refsym as R
from symv.audit import audit
from symv.dense import embed, snapshot

META = {
    "level": "exploration",
    "level_text": "Conservation monitor over the whole returned dictionary: for every lattice the returned keys are exactly the given edges; every term equals, block for block, the library's local builder called by the monitor with the bond coefficient looked up in either orientation and the on-site coefficients divided by the monitor's own degree count; on-site coefficients read off convention-free diagonal elements (one site singly / doubly occupied, the other empty) and summed over all edges touching a site equal the specified mu and U of that site; |hopping| and the interaction read per bond equal the bond's value. parse_edges_to_site_info: each bond name on exactly its two ends with opposite directions (lower-sorted end non-dual), coordination = degree, shapes/tags consistent. All simple graphs on <=4 labelled sites without isolated vertices are enumerated in both tiers; random graphs on 5-6 sites. Later additions: negative and tuple labels, impurity and staggered on-site patterns, coefficient objects (numpy scalars, 0-d arrays) unchanged, bonds listed under both orientations, dictionaries reused after update. Round 9: unions of cycles, complete graphs, bonds, paths, stars and ladders (4-11 sites, disconnected, piecewise regular, shuffled site numbers). Round 11: the abelian spin builders (transverse-field Ising, Heisenberg) under the same conservation monitor on their dense 4x4 terms - bond coupling once, field of a site summed over its bonds = specified value, documented defaults - with a stand-in for the two quimb helpers they import (quimb is not installed; a real quimb is used when present).",
    "technique": "runtime monitoring: conservation (sum over edges = specified per-site / per-bond coefficient) + exact differential against the local builder",
    "rule": (
        "one evaluation = one builder call on one lattice (graph x labeling x orientation/order shuffle x coefficient form x model x symmetry), all conservation sums checked. "
        "Non-trivial = a site of degree >=2 with a non-zero on-site coefficient and non-uniform degrees; distinct by (graph, labeling kind, coefficient forms, model, symmetry)."
    ),
    "anchors": ["hamiltonians.ham_fermi_hubbard_from_edges", "hamiltonians.ham_fermi_hubbard_spinless_from_edges", "hamiltonians.make_edge_factory", "hamiltonians.make_node_factory", "networks.parse_edges_to_site_info", "hamiltonians.ham_tfim_from_edges", "hamiltonians.tfim_local_array", "hamiltonians.ham_heisenberg_from_edges"],
    "floors": {
        "quick": {"evaluations": 1500, "distinct_nontrivial": 300, "tables": {"builder/hubbard": 500, "builder/spinless": 400, "builder/site_info": 400, "builder/tfim": 200, "builder/heisenberg": 60, "coeff/dict-reversed-orientation": 100, "coeff/callable": 100, "coeff/dict-reused-after-update": 50, "graphs/exhaustive<=4": 46, "graphs/disconnected": 300, "graphs/disconnected-every-bond-joins-equal-degrees-but-not-regular": 20}},
        "thorough": {"evaluations": 20000, "distinct_nontrivial": 3000},
    },
    "exhaustive": {"quick": False, "thorough": False},
    "wall": {"quick": 900, "thorough": 1500},
}


def small_graphs():
    out = []
    for n in (2, 3, 4):
        all_edges = list(itertools.combinations(range(n), 2))
        for r in range(1, len(all_edges) + 1):
            for es in itertools.combinations(all_edges, r):
                if {v for e in es for v in e} == set(range(n)):
                    out.append((n, list(es)))
    return out


def relabel(rng, n, kind):
    if kind == "int":
        labs = rng.sample(range(-6, 40), n) if rng.random() < 0.5 else rng.sample(range(-3, max(4, n - 2)), n)
    elif kind == "tuple":
        labs = rng.sample([(i, j) for i in range(-2, 3) for j in range(-2, 3)], n)
    else:
        labs = rng.sample(["s%02d" % k for k in range(40)], n)
    return labs


DEG = {}  # degrees of the current lattice (for the staggered pattern)
PASSED = []  # (object handed to the builder, float it stood for): must still agree afterwards


def typed(rng, v):
    """The number v as one of the objects users hold coefficients in: float, int, numpy
    scalar, or a 0-d numpy array (a MUTABLE object; the same object is handed out every time
    the coefficient is looked up)."""
    r = rng.random()
    if r < 0.6:
        o = float(v)
    elif r < 0.7 and float(v).is_integer():
        o = int(v)
    elif r < 0.85:
        o = np.float64(v)
    else:
        o = np.array(float(v))
    PASSED.append((o, float(v)))
    return o


def coeff_edge(rng, edges, given_edges, form, values=(1.0, 0.5, -2.0, 1.5, 0.25)):
    """-> (argument to pass, dict frozenset(edge)->value)"""
    if form == "scalar":
        v = rng.choice(values)
        return typed(rng, v), {frozenset(e): v for e in edges}
    truth = {frozenset(e): rng.choice(values) for e in edges}
    objs = {k: typed(rng, v) for k, v in truth.items()}
    if form == "dict":
        d = {}
        for e in given_edges:
            a, b = e
            r_ = rng.random()
            if r_ < 0.4:
                d[(b, a)] = objs[frozenset(e)]  # reversed orientation relative to the edge list
            elif r_ < 0.8:
                d[(a, b)] = objs[frozenset(e)]
            else:
                # a symmetric table: the bond listed under both orientations
                d[(a, b)] = objs[frozenset(e)]
                d[(b, a)] = objs[frozenset(e)]
        return d, truth
    return edge_callable(rng, objs), truth


def edge_callable(rng, objs):
    """The callables users hand in as 'a function of the two sites': a lambda, a function with
    further defaulted parameters, one taking *sites, a functools.partial, a bound method of
    a lookup object."""
    r = rng.random()
    if r < 0.4:
        return lambda a, b: objs[frozenset((a, b))]
    if r < 0.55:

        def f(a, b, default=None, *more):
            return objs.get(frozenset((a, b)), default)

        return f
    if r < 0.7:

        def g(*sites):
            return objs[frozenset(sites)]

        return g
    if r < 0.85:
        import functools

        def h(table, a, b, scale=1.0):
            return table[frozenset((a, b))]

        return functools.partial(h, objs)

    class Lookup:
        def value(self, a, b, *ignored, **kw):
            return objs[frozenset((a, b))]

    return Lookup().value


def node_callable(rng, objs):
    """'a function of the site': lambda, bound dict methods (`table.get`, `table.__getitem__`),
    a function with a defaulted second parameter, *args, a partial."""
    r = rng.random()
    if r < 0.35:
        return lambda s: objs[s]
    if r < 0.5:
        return objs.get
    if r < 0.6:
        return objs.__getitem__
    if r < 0.75:

        def f(site, default=8.0):
            return objs.get(site, default)

        return f
    if r < 0.87:

        def g(*a):
            return objs[a[0]]

        return g
    import functools

    def h(table, site, fallback=0.0, *more):
        return table[site]

    return functools.partial(h, objs)


def coeff_node(rng, sites, form, values=(0.0, 8.0, 1.0, 3.0, 0.5)):
    if form == "scalar":
        v = rng.choice(values)
        return typed(rng, v), {s: v for s in sites}
    truth = {s: rng.choice(values) for s in sites}
    if rng.random() < 0.25:
        # impurity pattern: most sites carry exactly zero
        truth = {s: (v if rng.random() < 0.3 else 0.0) for s, v in truth.items()}
    if DEG and rng.random() < 0.2:
        # staggered pattern: per-bond shares of neighbouring sites cancel exactly (value
        # proportional to the degree, alternating sign)
        m_ = rng.choice([0.5, 1.0, 2.0])
        truth = {s: (m_ * DEG[s] * (1 if k % 2 == 0 else -1)) for k, s in enumerate(sorted(sites, key=repr))}
    objs = {s: typed(rng, v) for s, v in truth.items()}
    if form == "dict":
        return dict(objs), truth
    return node_callable(rng, objs), truth


SPINFUL_MAP = {"Z2": [0, 1, 1, 0], "U1": [0, 1, 1, 2], "Z2Z2": [(0, 0), (0, 1), (1, 0), (1, 1)], "U1U1": [(0, 0), (0, 1), (1, 0), (1, 1)]}


def element_reader(G, maps):
    """dense operator tensor indexed by BASIS-state positions (undo the charge sort)."""
    d = embed(G)
    orders = [sorted(range(len(m)), key=lambda i: (m[i], i)) for m in maps]
    inv = [[o.index(i) for i in range(len(o))] for o in orders]

    def at(*idx):
        return d[tuple(inv[k][i] for k, i in enumerate(idx))]

    return at


def lattice_case(ctx, rng, n, edges0, exhaustive_tag=None):
    sr = ctx.sr
    PASSED.clear()
    kind = rng.choice(["int", "tuple", "str"])
    labs = relabel(rng, n, kind)
    edges = [(labs[a], labs[b]) for a, b in edges0]
    given = [((b, a) if rng.random() < 0.5 else (a, b)) for a, b in edges]
    rng.shuffle(given)
    sites = sorted({v for e in given for v in e})
    deg = {s: sum(1 for e in given if s in e) for s in sites}
    DEG.clear()
    DEG.update(deg)
    model = rng.choice(["hubbard", "spinless"])
    sym = rng.choice(["Z2", "U1", "Z2Z2", "U1U1"] if model == "hubbard" else ["Z2", "U1"])
    forms = {k: rng.choice(["scalar", "dict", "callable"]) for k in ("t", "U", "mu", "V")}
    t_arg, t_true = coeff_edge(rng, edges, given, forms["t"])
    mu_arg, mu_true = coeff_node(rng, sites, forms["mu"], values=(0.0, 0.5, -1.0, 0.25))
    wit = {"edges": repr(given), "model": model, "symmetry": sym, "forms": forms, "t": repr(t_true), "mu": repr(mu_true)}
    ctx.count("builder", model)
    ctx.count("symmetry", sym)
    ctx.count("labels", kind)
    for k in ("t", "mu"):
        ctx.count("coeff", forms[k])
    if forms["t"] == "dict" and any((b, a) in t_arg for a, b in given):
        ctx.count("coeff", "dict-reversed-orientation")
    if exhaustive_tag:
        ctx.count("graphs", exhaustive_tag)
    # history: sometimes the SAME coefficient dict objects were used for an earlier build with
    # other values and then updated in place through the user's own keys
    warm = rng.random() < 0.35 and any(isinstance(a_, dict) for a_ in (t_arg, mu_arg))
    if warm:
        ctx.count("coeff", "dict-reused-after-update")
        real_t = dict(t_arg) if isinstance(t_arg, dict) else None
        real_mu = dict(mu_arg) if isinstance(mu_arg, dict) else None
        if real_t is not None:
            for k_ in t_arg:
                t_arg[k_] = t_arg[k_] + 7.0
        if real_mu is not None:
            for k_ in mu_arg:
                mu_arg[k_] = mu_arg[k_] + 3.0
        if model == "hubbard":
            ctx.call(sr.ham_fermi_hubbard_from_edges, sym, given, t=t_arg, U=1.0, mu=mu_arg)
        else:
            ctx.call(sr.ham_fermi_hubbard_spinless_from_edges, sym, given, t=t_arg, V=0.5, mu=mu_arg)
        if real_t is not None:
            for k_, v_ in real_t.items():
                t_arg[k_] = v_
        if real_mu is not None:
            for k_, v_ in real_mu.items():
                mu_arg[k_] = v_
    if model == "hubbard":
        U_arg, U_true = coeff_node(rng, sites, forms["U"])
        wit["U"] = repr(U_true)
        o = ctx.call(sr.ham_fermi_hubbard_from_edges, sym, given, t=t_arg, U=U_arg, mu=mu_arg)
        maps = [SPINFUL_MAP[sym]] * 4
    else:
        V_arg, V_true = coeff_edge(rng, edges, given, forms["V"], values=(0.0, 8.0, 1.5, -1.0))
        wit["V"] = repr(V_true)
        o = ctx.call(sr.ham_fermi_hubbard_spinless_from_edges, sym, given, t=t_arg, V=V_arg, mu=mu_arg)
        maps = [[0, 1]] * 4
    ctx.evaluated()
    V_ = lambda mech, msg: ctx.violation(mech, msg, wit)
    if not o.ok:
        V_(f"builder-raises-{o.excname}", repr(o.exc))
        return
    H = o.value
    # (0) the coefficient objects handed in still hold what they held
    for obj, val in PASSED:
        if float(obj) != val:
            V_("coefficient-object-modified", f"a coefficient passed as {type(obj).__name__} held {val} before the call and {float(obj)} after it")
            return
    if any(isinstance(obj, np.ndarray) for obj, _ in PASSED):
        ctx.count("coeff", "0-d-array-objects")
    # (a) one term per given edge, keyed as given
    if list(H.keys()) != list(given) and set(H.keys()) != set(given) or len(H) != len(given):
        V_("terms-keys", f"returned keys {list(H.keys())} != edges as given {given}")
        return
    onsite_mu = {s: 0.0 for s in sites}
    onsite_U = {s: 0.0 for s in sites}
    for (a, b), G in H.items():
        errs = audit(G)
        if errs:
            V_("term-invalid-array", str(errs[:2]))
            return
        ca, cb = deg[a], deg[b]
        tt = t_true[frozenset((a, b))]
        # (b) exact differential against the local builder with the monitor's own bookkeeping
        if model == "hubbard":
            ref = sr.fermi_hubbard_local_array(sym, t=tt, U=(U_true[a], U_true[b]), mu=(mu_true[a], mu_true[b]), coordinations=(ca, cb))
        else:
            ref = sr.fermi_hubbard_spinless_local_array(sym, t=tt, V=V_true[frozenset((a, b))], mu=(mu_true[a], mu_true[b]), coordinations=(ca, cb))
        if snapshot(ref)[3:] != snapshot(G)[3:]:
            V_("term-differs-from-local-builder", f"term {(a, b)} is not the local array for t={tt}, on-site coefficients of ({a},{b}) divided by degrees ({ca},{cb})")
            return
        # (c) conservation: read convention-free elements
        at = element_reader(G, maps)
        if model == "hubbard":
            e_a1 = at(1, 0, 1, 0)  # a: one down electron, b empty  = -mu_a / c_a
            e_a2 = at(3, 0, 3, 0)  # a doubly occupied           = U_a/c_a - 2 mu_a/c_a
            e_b1 = at(0, 1, 0, 1)
            e_b2 = at(0, 3, 0, 3)
            if at(2, 0, 2, 0) != e_a1 or at(0, 2, 0, 2) != e_b1:
                V_("mu-spin-asymmetric", f"edge {(a, b)}: chemical potential differs between spin species")
                return
            onsite_mu[a] += -e_a1
            onsite_mu[b] += -e_b1
            onsite_U[a] += e_a2 - 2 * e_a1
            onsite_U[b] += e_b2 - 2 * e_b1
            hop = [at(2, 0, 0, 2), at(0, 2, 2, 0), at(1, 0, 0, 1), at(0, 1, 1, 0)]
            if not all(abs(abs(h) - abs(tt)) <= 1e-12 for h in hop):
                V_("hopping-magnitude", f"edge {(a, b)}: hopping elements {hop} do not have magnitude |t| = {abs(tt)}")
                return
        else:
            e_a1 = at(1, 0, 1, 0)
            e_b1 = at(0, 1, 0, 1)
            onsite_mu[a] += -e_a1
            onsite_mu[b] += -e_b1
            hop = [at(1, 0, 0, 1), at(0, 1, 1, 0)]
            if not all(abs(abs(h) - abs(tt)) <= 1e-12 for h in hop):
                V_("hopping-magnitude", f"edge {(a, b)}: hopping elements {hop} do not have magnitude |t| = {abs(tt)}")
                return
            vv = V_true[frozenset((a, b))]
            if abs(abs(at(1, 1, 1, 1)) - abs(vv + e_a1 + e_b1)) > 1e-12:
                V_("interaction-value", f"edge {(a, b)}: doubly-occupied-bond element {at(1, 1, 1, 1)} inconsistent with V = {vv}")
                return
    for s in sites:
        if abs(onsite_mu[s] - mu_true[s]) > 1e-12 * max(1, deg[s]):
            V_("onsite-mu-not-conserved", f"site {s!r} (degree {deg[s]}): chemical potential summed over its edges = {onsite_mu[s]} != specified {mu_true[s]}")
            return
        if model == "hubbard" and abs(onsite_U[s] - U_true[s]) > 1e-12 * max(1, deg[s]) * 8:
            V_("onsite-U-not-conserved", f"site {s!r} (degree {deg[s]}): U summed over its edges = {onsite_U[s]} != specified {U_true[s]}")
            return
    nonuniform = len(set(deg.values())) > 1
    hot = any(deg[s] >= 2 and (mu_true[s] != 0 or (model == "hubbard" and U_true[s] != 0)) for s in sites)
    if nonuniform and hot:
        ctx.nontrivial((tuple(map(tuple, edges0)), kind, tuple(sorted(forms.items())), model, sym))
        ctx.sample({"edges": repr(given), "degrees": repr(deg), "model": model, "symmetry": sym, "coefficient_forms": forms}, limit=2)


def quimb_stand_in():
    """`tfim_local_array` and `ham_heisenberg_from_edges` import quimb for three 2x2 matrices and
    one 4x4 one; quimb is not installed here. When it cannot be imported, a stand-in module
    with exactly those two functions (`pauli`, `ham_heis`; `&` = Kronecker product, as on
    quimb's qarray) is registered so that the library's own code - coordination counting,
    coefficient factories, division of the field by the degrees, from_dense - runs under the
    monitor. A real quimb, when present, is used as it is."""
    import sys
    import types

    try:
        import quimb  # noqa: F401

        return "real"
    except Exception:
        pass

    class qarr(np.ndarray):
        def __and__(self, other):
            return np.kron(np.asarray(self), np.asarray(other)).view(qarr)

    mats = {"I": [[1, 0], [0, 1]], "X": [[0, 1], [1, 0]], "Z": [[1, 0], [0, -1]], "Y": [[0, -1j], [1j, 0]]}

    def pauli(s, dim=2, **kw):
        return np.array(mats[s.upper()], dtype=kw.get("dtype", complex)).view(qarr)

    def ham_heis(n, j=1.0, b=0.0, cyclic=False, **kw):
        if n != 2 or b != 0.0:
            raise NotImplementedError("stand-in: two sites, no field")
        try:
            jx, jy, jz = j
        except TypeError:
            jx = jy = jz = j
        h = sum(c * np.kron(np.array(mats[k]), np.array(mats[k])) for c, k in ((jx, "X"), (jy, "Y"), (jz, "Z"))) / 4
        return np.ascontiguousarray(h.real).view(qarr)

    m = types.ModuleType("quimb")
    m.pauli, m.ham_heis, m.__symv_stand_in__ = pauli, ham_heis, True
    sys.modules["quimb"] = m
    return "stand-in"


PAULI = {"I": np.eye(2), "X": np.array([[0.0, 1.0], [1.0, 0.0]]), "Z": np.array([[1.0, 0.0], [0.0, -1.0]])}
YY_REAL = np.real(np.kron(np.array([[0, -1j], [1j, 0]]), np.array([[0, -1j], [1j, 0]])))


def spin_case(ctx, rng, n, edges0):
    """Transverse-field Ising and Heisenberg builders (abelian, spin-1/2 sites): the same
    conservation law - every bond once, the field of a site adds up to the specified value
    over the bonds touching it - judged on the dense 4x4 form of every term."""
    sr = ctx.sr
    PASSED.clear()
    kind = rng.choice(["int", "tuple", "str"])
    labs = relabel(rng, n, kind)
    edges = [(labs[a], labs[b]) for a, b in edges0]
    given = [((b, a) if rng.random() < 0.5 else (a, b)) for a, b in edges]
    rng.shuffle(given)
    sites = sorted({v for e in given for v in e})
    deg = {s: sum(1 for e in given if s in e) for s in sites}
    DEG.clear()
    DEG.update(deg)
    model = "tfim" if rng.random() < 0.75 else "heisenberg"
    ctx.count("builder", model)
    ctx.count("labels", kind)
    if model == "heisenberg":
        sym = rng.choice(["Z2", "U1"])
        j = rng.choice([1.0, 0.5, -2.0])
        wit = {"edges": repr(given), "model": model, "symmetry": sym, "j": j}
        o = ctx.call(sr.ham_heisenberg_from_edges, sym, given, j=j) if rng.random() < 0.7 else None
        if o is None:
            j = 1.0
            o = ctx.call(sr.ham_heisenberg_from_edges, sym, given)
        ctx.evaluated()
        V_ = lambda mech, msg: ctx.violation(mech, msg, wit)
        if not o.ok:
            V_(f"builder-raises-{o.excname}", repr(o.exc))
            return
        H = o.value
        if set(H.keys()) != set(given) or len(H) != len(given):
            V_("terms-keys", f"returned keys {list(H.keys())} != edges as given {given}")
            return
        want = j * (np.kron(PAULI["X"], PAULI["X"]) + YY_REAL + np.kron(PAULI["Z"], PAULI["Z"])) / 4
        for (a, b), G in H.items():
            errs = audit(G)
            if errs:
                V_("term-invalid-array", str(errs[:2]))
                return
            d = embed(G)
            if d.shape != (2, 2, 2, 2) or G.duals != (False, False, True, True) or not np.allclose(d.reshape(4, 4), want, rtol=0, atol=1e-13):
                V_("heisenberg-term-value", f"edge {(a, b)}: term is not j S.S with j = {j}")
                return
        if len(set(deg.values())) > 1:
            ctx.nontrivial((tuple(map(tuple, edges0)), kind, model, sym))
        return
    forms = {k: rng.choice(["scalar", "dict", "callable"]) for k in ("jx", "hz")}
    jx_arg, jx_true = coeff_edge(rng, edges, given, forms["jx"], values=(-1.0, 1.0, 0.5, -2.0, 0.25))
    hz_arg, hz_true = coeff_node(rng, sites, forms["hz"], values=(-3.0, 0.0, 1.0, 0.5, 2.0))
    for k in ("jx", "hz"):
        ctx.count("coeff", forms[k])
    if forms["jx"] == "dict" and any((b, a) in jx_arg for a, b in given):
        ctx.count("coeff", "dict-reversed-orientation")
    wit = {"edges": repr(given), "model": model, "forms": forms, "jx": repr(jx_true), "hz": repr(hz_true)}
    kw = {}
    defaults = rng.random() < 0.1
    if defaults:
        # documented defaults jx=-1, hz=-3
        jx_true = {frozenset(e): -1.0 for e in edges}
        hz_true = {s: -3.0 for s in sites}
        ctx.count("coeff", "tfim-defaults")
    else:
        kw = dict(jx=jx_arg, hz=hz_arg)
    o = ctx.call(sr.ham_tfim_from_edges, "Z2", given, **kw)
    ctx.evaluated()
    V_ = lambda mech, msg: ctx.violation(mech, msg, wit)
    if not o.ok:
        V_(f"builder-raises-{o.excname}", repr(o.exc))
        return
    H = o.value
    for obj, val in PASSED:
        if float(obj) != val:
            V_("coefficient-object-modified", f"a coefficient passed as {type(obj).__name__} held {val} before the call and {float(obj)} after it")
            return
    if set(H.keys()) != set(given) or len(H) != len(given):
        V_("terms-keys", f"returned keys {list(H.keys())} != edges as given {given}")
        return
    field = {s: 0.0 for s in sites}
    XX, ZI, IZ = np.kron(PAULI["X"], PAULI["X"]), np.kron(PAULI["Z"], PAULI["I"]), np.kron(PAULI["I"], PAULI["Z"])
    for (a, b), G in H.items():
        errs = audit(G)
        if errs:
            V_("term-invalid-array", str(errs[:2]))
            return
        d = embed(G)
        if d.shape != (2, 2, 2, 2) or G.duals != (False, False, True, True):
            V_("tfim-term-layout", f"edge {(a, b)}: shape {d.shape} duals {G.duals}")
            return
        m = d.reshape(4, 4)
        jj = jx_true[frozenset((a, b))]
        # (b) exact differential: bond coupling once, fields divided by the monitor's degrees
        want = jj * XX + (hz_true[a] / deg[a]) * ZI + (hz_true[b] / deg[b]) * IZ
        if not np.allclose(m, want, rtol=0, atol=1e-12):
            V_("term-differs-from-local-builder", f"term {(a, b)} is not jx X.X + hz_a/deg_a Z.I + hz_b/deg_b I.Z for jx={jj}, fields ({hz_true[a]},{hz_true[b]}), degrees ({deg[a]},{deg[b]})")
            return
        # (c) conservation, read off the diagonal: <00|h|00> = fa + fb, <01|h|01> = fa - fb, <10|h|10> = -fa + fb
        field[a] += (m[0, 0] + m[1, 1]) / 2
        field[b] += (m[0, 0] + m[2, 2]) / 2
        if abs(m[0, 3] - jj) > 1e-12 or abs(m[1, 2] - jj) > 1e-12:
            V_("bond-coupling", f"edge {(a, b)}: X.X elements {m[0, 3]}, {m[1, 2]} != jx = {jj}")
            return
    for s in sites:
        if abs(field[s] - hz_true[s]) > 1e-12 * max(1, deg[s]) * 4:
            V_("onsite-field-not-conserved", f"site {s!r} (degree {deg[s]}): field summed over its edges = {field[s]} != specified {hz_true[s]}")
            return
    if len(set(deg.values())) > 1 and any(deg[s] >= 2 and hz_true[s] != 0 for s in sites):
        ctx.nontrivial((tuple(map(tuple, edges0)), kind, tuple(sorted(forms.items())), model))
        ctx.sample({"edges": repr(given), "degrees": repr(deg), "model": model, "coefficient_forms": forms}, limit=1)


def site_info_case(ctx, rng, n, edges0):
    sr = ctx.sr
    kind = rng.choice(["int", "tuple", "str"])
    labs = relabel(rng, n, kind)
    edges = [(labs[a], labs[b]) for a, b in edges0]
    given = [((b, a) if rng.random() < 0.5 else (a, b)) for a, b in edges]
    rng.shuffle(given)
    bond_dim = rng.choice([2, 3, 4])
    phys = rng.choice([None, 2, 4])
    kw = {}
    if kind == "tuple" and rng.random() < 0.5:
        kw = dict(site_ind_id="k{},{}", site_tag_id="I{},{}")
    o = ctx.call(sr.parse_edges_to_site_info, given, bond_dim, phys_dim=phys, **kw)
    ctx.evaluated()
    ctx.count("builder", "site_info")
    wit = {"edges": repr(given), "bond_dim": bond_dim, "phys_dim": phys}
    V_ = lambda mech, msg: ctx.violation(mech, msg, wit)
    if not o.ok:
        V_(f"site_info-raises-{o.excname}", repr(o.exc))
        return
    info = o.value
    sites = sorted({v for e in given for v in e})
    deg = {s: sum(1 for e in given if s in e) for s in sites}
    if set(info) != set(sites):
        V_("site_info-sites", f"sites {sorted(info)} != {sites}")
        return
    where = {}
    for s, d in info.items():
        nb = deg[s]
        if d.get("coordination") != nb:
            V_("site_info-coordination", f"site {s!r}: coordination {d.get('coordination')} != degree {nb}")
            return
        exp_len = nb + (1 if phys is not None else 0)
        if not (len(d["inds"]) == len(d["duals"]) == len(d["shape"]) == exp_len):
            V_("site_info-lengths", f"site {s!r}: inds/duals/shape lengths {len(d['inds'])}/{len(d['duals'])}/{len(d['shape'])} != {exp_len}")
            return
        if list(d["shape"][:nb]) != [bond_dim] * nb or (phys is not None and (d["shape"][-1] != phys or d["duals"][-1])):
            V_("site_info-shape", f"site {s!r}: shape {d['shape']} duals {d['duals']}")
            return
        if len(set(d["inds"])) != len(d["inds"]) or not isinstance(d.get("tags"), tuple) or len(d["tags"]) != 1:
            V_("site_info-names", f"site {s!r}: inds {d['inds']} tags {d.get('tags')}")
            return
        for ind, du in zip(d["inds"][:nb], d["duals"][:nb]):
            where.setdefault(ind, []).append((s, bool(du)))
    if len(where) != len(given):
        V_("site_info-bond-count", f"{len(where)} distinct bond names for {len(given)} edges")
        return
    ends = sorted(tuple(sorted(e)) for e in given)
    seen = []
    for ind, occ in where.items():
        if len(occ) != 2:
            V_("site_info-bond-ends", f"bond {ind!r} appears on {len(occ)} sites")
            return
        (s1, d1), (s2, d2) = sorted(occ)
        if d1 == d2:
            V_("site_info-bond-directions", f"bond {ind!r}: both ends have direction {d1}")
            return
        if d1:  # lower-sorted end must be non-dual
            V_("site_info-bond-orientation", f"bond {ind!r}: lower-sorted end {s1!r} is dual")
            return
        seen.append((s1, s2))
    if sorted(seen) != ends:
        V_("site_info-bond-pairs", f"bonds connect {sorted(seen)} != edges {ends}")
        return
    if len(set(deg.values())) > 1:
        ctx.nontrivial(("site_info", tuple(map(tuple, edges0)), kind, phys))


def structured_graph(rng):
    """Disjoint unions of standard pieces (cycle, complete graph, single bond, path, star, 2xk
    ladder): disconnected lattices, components that are each regular but of different degree,
    regular lattices, bipartite ones. 4-11 sites."""
    pieces = []
    n = 0
    for _ in range(rng.choice([1, 2, 2, 2, 3])):
        kind = rng.choice(["cycle", "cycle", "complete", "bond", "bond", "path", "star", "ladder"])
        if kind == "cycle":
            k = rng.randint(3, 5)
            es = [(i, (i + 1) % k) for i in range(k)]
        elif kind == "complete":
            k = rng.randint(3, 4)
            es = list(itertools.combinations(range(k), 2))
        elif kind == "bond":
            k, es = 2, [(0, 1)]
        elif kind == "path":
            k = rng.randint(3, 4)
            es = [(i, i + 1) for i in range(k - 1)]
        elif kind == "star":
            k = rng.randint(4, 5)
            es = [(0, i) for i in range(1, k)]
        else:
            m = rng.randint(2, 3)
            k = 2 * m
            es = [(i, i + 1) for i in range(m - 1)] + [(m + i, m + i + 1) for i in range(m - 1)] + [(i, m + i) for i in range(m)]
        if n + k > 11:
            break
        pieces.append(kind)
        yield_es = [(a + n, b + n) for a, b in es]
        n += k
        for e in yield_es:
            pieces.append(e)
    es = [p_ for p_ in pieces if isinstance(p_, tuple)]
    kinds = [p_ for p_ in pieces if isinstance(p_, str)]
    # interleave the site numbers so that components are not contiguous ranges
    perm = list(range(n))
    if rng.random() < 0.5:
        rng.shuffle(perm)
    es = [tuple(sorted((perm[a], perm[b]))) for a, b in es]
    rng.shuffle(es)
    return n, es, kinds


def random_graph(rng):
    n = rng.choice([5, 6])
    all_edges = list(itertools.combinations(range(n), 2))
    while True:
        es = [e for e in all_edges if rng.random() < 0.4]
        if es and {v for e in es for v in e} == set(range(n)):
            return n, es


def run(ctx):
    import random

    graphs = small_graphs()
    ctx.count("quimb", quimb_stand_in())
    for k_, rng in ctx.cases("spin-models", ctx.budget(600, 12000)):
        r_ = rng.random()
        if r_ < 0.4:
            n, es = graphs[rng.randrange(len(graphs))]
        elif r_ < 0.7:
            n, es, _kinds = structured_graph(rng)
            if not es:
                continue
        else:
            n, es = random_graph(rng)
        ctx.run_case(spin_case, ctx, rng, n, es)
    reps = ctx.budget(45, 900)
    k = 0
    for rep in range(reps):
        for gi, (n, es) in enumerate(graphs):
            k += 1
            if k % ctx.nshards != ctx.shard or not ctx.want("small-graphs", k):
                continue
            if not ctx.time_left():
                ctx.count("budget", "small-graphs:stopped_by_wall_clock")
                break
            rng = random.Random(f"{ctx.seed}:c19:{k}")
            ctx.run_case(lattice_case, ctx, rng, n, es, "exhaustive<=4" if rep == 0 else None)
            if rep % 2 == 0:
                ctx.run_case(site_info_case, ctx, rng, n, es)
    for _, rng in ctx.cases("structured-graphs", ctx.budget(700, 14000)):
        n, es, kinds = structured_graph(rng)
        if not es:
            continue
        deg = {}
        for a_, b_ in es:
            deg[a_] = deg.get(a_, 0) + 1
            deg[b_] = deg.get(b_, 0) + 1
        ctx.count("graphs", "structured")
        if len(kinds) >= 2:
            ctx.count("graphs", "disconnected")
            if all(deg[a_] == deg[b_] for a_, b_ in es) and len(set(deg.values())) >= 2:
                ctx.count("graphs", "disconnected-every-bond-joins-equal-degrees-but-not-regular")
        ctx.run_case(lattice_case, ctx, rng, n, es)
        ctx.run_case(site_info_case, ctx, rng, n, es)
    for _, rng in ctx.cases("random-graphs", ctx.budget(1250, 25000)):
        n, es = random_graph(rng)
        ctx.run_case(lattice_case, ctx, rng, n, es)
        ctx.run_case(site_info_case, ctx, rng, n, es)
