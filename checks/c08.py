"""C08 — structural, elementwise and arithmetic operations commute with densification."""
import operator

import numpy as np

from symv import cmp, gen
from symv import refsym as R
from symv.dense import describe, embed, embed_vec, is_array, is_vector, snapshot, struct_sig, vec_dense

META = {
    "level": "exploration",
    "level_text": "Every monitored call of a structural / arithmetic op on an abelian array, and of every arithmetic op and exported elementwise function on a block vector, in each available call form (method or operator, symmray function, autoray dispatch), is compared with the numpy operation on the independently densified operands (exact on integer data). A returned value that differs is a violation, a clean refusal (ValueError/TypeError/NotImplementedError) is not, an internal error or RecursionError is; forms must agree with each other. Seeded random exploration over 5 symmetries, real/complex, operands with different stored sectors. Later additions: every array result audited against its own indices, subjects with a history, in-place binary operators with a reordered partner, sums of arrays whose legs list different charges, several axes at once for expand_dims, empty squeeze selections, vector in-place operators, all / any, one-sided and zero clip bounds.",
    "technique": "runtime monitoring: differential oracle (numpy on densified operands) + cross-form agreement",
    "rule": (
        "one evaluation = one (op, call form) invocation compared with numpy on the harness-densified operands. Ops: transpose, conj, dagger/H/T, squeeze, expand_dims, x*s, s*x, x/s, -x, "
        "x+y, x-y, x*y, multiply_diagonal, sum, norm on arrays; + - * / ** with scalars (both sides) and vectors, abs, sqrt, log, log2, log10, clip, isfinite, min, max, sum on block vectors. "
        "Non-trivial = binary: operands' stored sectors differ; unary: >=1 valid sector without a block (vectors: >=2 blocks); distinct by (op, form, structure signatures)."
    ),
    "anchors": [
        "block_core.BlockBase._binary_blockwise_op",
        "abelian_core.AbelianArray.conj",
        "abelian_core.AbelianArray.transpose",
        "abelian_core.AbelianArray.squeeze",
        "abelian_core.AbelianArray.expand_dims",
        "abelian_core.AbelianArray.multiply_diagonal",
        "block_core.BlockBase.norm",
        "interface.log",
    ],
    "floors": {
        "quick": {"evaluations": 8000, "distinct_nontrivial": 1500, "tables": {"arrayop": 4000, "vectorop": 3000, "form/autoray": 1500, "form/function": 1500, "feature/different-sectors": 500, "feature/mixed-dtype-blocks": 200}},
        "thorough": {"evaluations": 300000, "distinct_nontrivial": 40000, "tables": {"arrayop": 150000, "vectorop": 100000}},
    },
    "wall": {"quick": 900, "thorough": 1500},
}

EXACT_TOL = dict(exact=True)


def judge_forms(ctx, op, forms, ref, exp, wit, exact=True, scale=1.0, charge=None, nontrivial=None, vector_ref=None, scalar=False, rtol=1e-12):
    """forms: {name: thunk}. Compare every form with the oracle and with each other."""
    outs = {}
    for name, fn in forms.items():
        o = ctx.call(fn)
        ctx.evaluated()
        ctx.count("form", name)
        outs[name] = o
        w = dict(wit, op=op, form=name)
        if not o.ok:
            if o.refusal and not isinstance(o.exc, RecursionError):
                ctx.count("refusal", f"{op}:{o.excname}")
                continue
            mech = f"{op}-raises-{o.excname}"
            if op in ("log", "log2", "log10") and isinstance(o.exc, RecursionError):
                mech = "log-infinite-recursion"
            ctx.violation(mech, f"{op} via {name}: {o.exc!r}", w)
            continue
        res = o.value
        if scalar:
            if is_array(res) or is_vector(res) or not cmp.close(res, exp, exact, scale, rtol):
                ctx.violation(f"{op}-value", f"{op} via {name}: {res!r} != dense {exp!r}", w)
            continue
        if vector_ref is not None:
            if not is_vector(res):
                ctx.violation(f"{op}-type", f"{op} via {name}: returned {type(res).__name__}", w)
                continue
            try:
                got = embed_vec(res, vector_ref)
            except Exception as e:
                ctx.violation(f"{op}-layout", f"{op} via {name}: {e}", w)
                continue
            if not cmp.close(got, exp, exact, scale, rtol) or (exact and got.dtype.kind != np.asarray(exp).dtype.kind and got.dtype.kind == "b"):
                ctx.violation(f"{op}-value", f"{op} via {name}: differs from dense, max|diff| {cmp.maxdiff(got, exp)}", w)
            continue
        m = cmp.compare_array(res, ref, exp, exact, scale, rtol)
        if not m and is_array(res):
            # "the block form of the dense result": the blocks must sit in sectors the result's
            # OWN indices list (the comparison above places them by the reference layout)
            from symv.audit import audit as _audit

            ea = _audit(res)
            if ea:
                m = "index structure: " + "; ".join(ea[:2])
        if m:
            ctx.violation(f"{op}-{'structure' if ('index' in m or 'layout' in m) else 'value'}", f"{op} via {name}: {m}", w)
            continue
        if charge is not None and res.charge != charge:
            ctx.violation(f"{op}-charge", f"{op} via {name}: charge {res.charge!r} != {charge!r}", w)
    oks = {k: o for k, o in outs.items() if o.ok}
    if len(oks) >= 2 and not scalar:
        snaps = {k: snapshot(o.value) for k, o in oks.items()}
        first = next(iter(snaps))
        for k, s_ in snaps.items():
            if s_ != snaps[first]:
                ctx.violation(f"{op}-forms-disagree", f"{op}: form {k} and form {first} return different values", dict(wit, op=op))
                break
    if oks and any(not o.ok for o in outs.values()):
        ctx.count("forms", f"{op}:some-forms-refuse")
    if nontrivial is not None and oks:
        ctx.nontrivial((op, tuple(sorted(oks)), nontrivial))
        ctx.sample({"op": op, "forms": sorted(outs), "forms_that_returned": sorted(oks), **{k: v for k, v in wit.items() if k not in ("x", "y")}, "x": {k: v for k, v in wit.get("x", {}).items() if k != "blocks"} if isinstance(wit.get("x"), dict) else None}, limit=3)


def dt(rng):
    if rng.random() < 0.06:
        return "int64"  # integer-typed blocks (counting tensors, 0/1 masks, adjacency data)
    return rng.choice(["float64", "float64", "complex128"])


# ---------------------------------------------------------------------------- arrays
def case_array(ctx, rng):
    import autoray as ar

    sr = ctx.sr
    sym = gen.pick_sym(rng)
    vals = gen.Values(rng, "int", dt(rng))
    op = rng.choice(["transpose", "conj", "dagger", "squeeze", "expand_dims", "scalar", "neg", "add", "sub", "mul", "multiply_diagonal", "sum", "norm", "abs"])
    ctx.count("arrayop", op)
    x = None
    if op == "squeeze":
        nd = rng.randint(1, 4) if rng.random() < 0.8 else rng.randint(7, 11)
        if nd > 4:
            ctx.count("feature", "rank>=7")
        idx = []
        nbig = 0
        for _ in range(nd):
            if rng.random() < 0.5 or (nd > 4 and nbig >= 3):
                c = R.identity(sym) if rng.random() < 0.85 else rng.choice(gen.POOL[sym])
                idx.append(sr.BlockIndex({c: 1}, dual=rng.random() < 0.5))
            else:
                nbig += 1
                idx.append(gen.rand_index(sr, rng, sym, maxd=2 if nd > 4 else 3, maxc=2 if nd > 4 else 3))
        x = gen.make_array(sr, rng, sym, idx, values=vals)
    else:
        x = gen.rand_array(sr, rng, sym, maxnd=4 if op in ("transpose", "dagger") else 3, values=vals, allow0=op in ("scalar", "neg", "sum", "norm"))
    if op in ("transpose", "conj", "dagger", "neg", "scalar", "sum", "norm", "abs", "multiply_diagonal") and x.ndim and rng.random() < 0.12:
        # blocks of mixed dtype inside one array: real + complex with different stored sectors
        kind_ = "static" if type(x).static_symmetry else "generic_str"
        y_ = gen.make_array(sr, rng, sym, x.indices, charge=x.charge, values=gen.Values(rng, "int", "complex128" if str(embed(x).dtype).startswith("float") else "float64"), kind=kind_, sparsity=0.5)
        o_ = ctx.call(lambda: x + y_)
        if o_.ok and len({str(np.asarray(b).dtype) for b in o_.value.blocks.values()}) > 1:
            x = o_.value
            ctx.count("feature", "mixed-dtype-blocks")
    if op != "squeeze" and x.ndim and rng.random() < 0.2:
        # the subject is itself the RESULT of a short history of library operations (its block
        # order, dropped charges, shared index objects are whatever those left behind)
        hist = []
        for _ in range(rng.randint(1, 3)):
            h = rng.choice(["transpose", "conj-conj", "expand-squeeze", "fuse-unfuse", "add-zero-partner", "multiply_diagonal-ones", "scalar", "copy", "transpose-inplace"])
            try:
                if h == "transpose" and x.ndim:
                    x2 = x.transpose(tuple(rng.sample(range(x.ndim), x.ndim)))
                elif h == "conj-conj":
                    x2 = x.conj().conj()
                elif h == "expand-squeeze":
                    k_ = rng.randint(0, x.ndim)
                    x2 = x.expand_dims(k_).squeeze(k_)
                elif h == "fuse-unfuse" and x.ndim >= 2:
                    g_ = tuple(rng.sample(range(x.ndim), 2))
                    x2 = x.fuse(g_).unfuse_all()
                elif h == "add-zero-partner":
                    x2 = x + (x * 0.0)
                elif h == "multiply_diagonal-ones":
                    k_ = rng.randrange(x.ndim)
                    cm_ = x.indices[k_].chargemap
                    keep_ = [c for c in cm_ if rng.random() < 0.8] or list(cm_)
                    x2 = x.multiply_diagonal(sr.BlockVector({c: np.ones(cm_[c], dtype=embed(x).dtype) for c in keep_}), k_)
                elif h == "scalar":
                    x2 = (x * 2.0) / 2.0
                elif h == "transpose-inplace" and x.ndim:
                    x2 = x.copy()
                    x2.transpose(tuple(rng.sample(range(x.ndim), x.ndim)), inplace=True)
                else:
                    x2 = x.copy()
            except Exception:
                continue
            if x2.ndim == 0 or not x2.blocks:
                continue
            x = x2
            hist.append(h)
        if hist:
            ctx.count("feature", "subject-with-history")
    d = embed(x)
    wit = {"x": describe(x, True)}
    sig = struct_sig(x)
    nt = sig if cmp.has_missing(x) else None
    ident = R.identity(sym)
    if op == "transpose":
        perm = tuple(rng.sample(range(x.ndim), x.ndim))
        # the axes as users spell them: some counted from the end, as tuple / list / ndarray
        parg = perm
        if x.ndim and rng.random() < 0.35:
            parg = tuple((p_ - x.ndim) if rng.random() < 0.5 else p_ for p_ in perm)
            if any(p_ < 0 for p_ in parg):
                ctx.count("feature", "transpose-axes-counted-from-the-end")
                if any(p_ >= 0 for p_ in parg) and list(parg) == sorted(parg) and perm != tuple(range(x.ndim)):
                    ctx.count("feature", "transpose-mixed-sign-axes-in-ascending-order")
        r_ = rng.random()
        if r_ < 0.2:
            parg = list(parg)
        elif r_ < 0.3:
            parg = np.array(parg, dtype=np.int64)
        forms = {"method": lambda: x.transpose(parg), "function": lambda: sr.transpose(x, parg), "autoray": lambda: ar.do("transpose", x, parg)}
        if rng.random() < 0.15:
            perm = tuple(range(x.ndim - 1, -1, -1))
            forms = {"method": lambda: x.transpose(), "T": lambda: x.T, "function": lambda: sr.transpose(x)}
        judge_forms(ctx, op, forms, [x.indices[p] for p in perm], d.transpose(perm), dict(wit, perm=perm), charge=x.charge, nontrivial=nt and (nt, perm))
    elif op == "conj":
        ref = [gen.conj_index(sr, ix) for ix in x.indices]
        forms = {"method": lambda: x.conj(), "function": lambda: sr.conj(x), "autoray": lambda: ar.do("conj", x)}
        judge_forms(ctx, op, forms, ref, d.conj(), wit, charge=R.neg(sym, x.charge), nontrivial=nt)
    elif op == "dagger":
        ref = [gen.conj_index(sr, ix) for ix in reversed(x.indices)]
        forms = {"method": lambda: x.dagger(), "H": lambda: x.H}
        judge_forms(ctx, op, forms, ref, d.conj().transpose(), wit, charge=R.neg(sym, x.charge), nontrivial=nt)
    elif op == "squeeze":
        ones = [i for i, ix in enumerate(x.indices) if ix.size_total == 1]
        mode = rng.choice(["all", "one", "some", "none-selected"])
        if mode == "none-selected":
            # an EMPTY selection removes nothing (numpy.squeeze(d, axis=()) is d)
            axis = rng.choice([(), []])
            rem = []
        elif mode == "all" or not ones:
            axis = None
            rem = ones
        elif mode == "one":
            axis = rng.choice(ones)
            rem = [axis]
            if rng.random() < 0.3:
                axis = axis - x.ndim  # negative axis: numpy semantics
        else:
            rem = rng.sample(ones, rng.randint(1, len(ones)))
            axis = tuple(rem)
        bad_charge = any(next(iter(x.indices[i].chargemap)) != ident for i in rem)
        ref = [ix for i, ix in enumerate(x.indices) if i not in rem]
        exp = d.reshape([ix.size_total for ix in ref])
        forms = {"method": lambda: x.squeeze(axis), "function": lambda: sr.squeeze(x, axis), "autoray": lambda: ar.do("squeeze", x, axis)}
        if bad_charge:
            # squeezing a non-zero charge away cannot conserve the charge: must refuse
            for name, fn in forms.items():
                o = ctx.call(fn)
                ctx.evaluated()
                ctx.count("form", name)
                if o.ok:
                    ctx.violation("squeeze-nonzero-charge-accepted", f"squeeze({axis}) removed an axis of non-zero charge and returned", dict(wit, axis=axis))
                elif not o.refusal:
                    ctx.violation(f"squeeze-raises-{o.excname}", repr(o.exc), dict(wit, axis=axis))
            return
        judge_forms(ctx, op, forms, ref, exp, dict(wit, axis=axis), charge=x.charge, nontrivial=(sig, repr(axis)) if rem else None)
    elif op == "expand_dims":
        axis = rng.randint(0, x.ndim)
        use_neg = rng.random() < 0.3
        ax_arg = axis - (x.ndim + 1) if use_neg else axis
        if axis > 0:
            dual_def = x.indices[axis - 1].dual
        elif axis < x.ndim:
            dual_def = x.indices[axis].dual
        else:
            dual_def = False
        exp = np.expand_dims(d, axis)
        ref = list(x.indices)
        ref.insert(axis, sr.BlockIndex({ident: 1}, dual=dual_def))
        forms = {"method": lambda: x.expand_dims(ax_arg), "function": lambda: sr.expand_dims(x, ax_arg), "autoray": lambda: ar.do("expand_dims", x, ax_arg)}
        judge_forms(ctx, op, forms, ref, exp, dict(wit, axis=ax_arg), charge=x.charge, nontrivial=nt and (nt, axis))
        # several axes at once (numpy semantics), positions given with mixed signs: either the
        # block form of numpy.expand_dims or a refusal
        if rng.random() < 0.35:
            k2 = rng.randint(2, 3)
            final = sorted(rng.sample(range(x.ndim + k2), k2))
            axt = [p_ - (x.ndim + k2) if rng.random() < 0.5 else p_ for p_ in final]
            rng.shuffle(axt)
            axt = tuple(axt) if rng.random() < 0.7 else list(axt)
            exp_t = np.expand_dims(d, tuple(axt))
            for fname, fn_ in (("method", lambda: x.expand_dims(axt)), ("function", lambda: sr.expand_dims(x, axt)), ("autoray", lambda: ar.do("expand_dims", x, axt))):
                o_ = ctx.call(fn_)
                ctx.evaluated()
                ctx.count("form", fname)
                ctx.count("feature", "expand_dims-several-axes")
                w_ = dict(wit, axis=repr(axt), form=fname)
                if not o_.ok:
                    if o_.refusal or isinstance(o_.exc, TypeError):
                        ctx.count("refusal", f"expand_dims-several-axes:{o_.excname}")
                    else:
                        ctx.violation(f"expand_dims-raises-{o_.excname}", repr(o_.exc), w_)
                    continue
                y_ = o_.value
                if not is_array(y_) or embed(y_).shape != exp_t.shape or not np.array_equal(embed(y_), exp_t) or any(y_.indices[p_].size_total != 1 for p_ in final):
                    ctx.violation("expand_dims-several-axes", f"expand_dims({axt!r}) via {fname}: result of shape {embed(y_).shape if is_array(y_) else type(y_)} is not the block form of numpy.expand_dims (shape {exp_t.shape})", w_)
                    break
        # with explicit charge and direction (method only)
        c = rng.choice(gen.POOL[sym])
        dl = rng.random() < 0.5
        ref2 = list(x.indices)
        ref2.insert(axis, sr.BlockIndex({c: 1}, dual=dl))
        judge_forms(ctx, "expand_dims_c", {"method": lambda: x.expand_dims(ax_arg, c=c, dual=dl)}, ref2, exp, dict(wit, axis=ax_arg, c=repr(c), dual=dl), charge=R.comb(sym, [x.charge, R.signed(sym, c, dl)]))
    elif op == "scalar":
        s = rng.choice([2.0, -3.0, 0.5, 2 + 1j, 4])
        judge_forms(ctx, "mul_scalar", {"x*s": lambda: x * s, "s*x": lambda: s * x}, x.indices, d * s, dict(wit, s=repr(s)), charge=x.charge, nontrivial=nt)
        judge_forms(ctx, "div_scalar", {"x/s": lambda: x / s}, x.indices, d / s, dict(wit, s=repr(s)), charge=x.charge)
    elif op == "neg":
        judge_forms(ctx, op, {"-x": lambda: -x}, x.indices, -d, wit, charge=x.charge, nontrivial=nt)
    elif op in ("add", "sub", "mul"):
        y = gen.make_array(sr, rng, sym, x.indices, charge=x.charge, values=vals, kind={"U1Array": "static", "Z2Array": "static", "Z2Z2Array": "static", "U1U1Array": "static"}.get(type(x).__name__, "generic_str"))
        dy = embed(y)
        fn = {"add": operator.add, "sub": operator.sub, "mul": operator.mul}[op]
        diff = set(x.blocks) != set(y.blocks)
        if diff:
            ctx.count("feature", "different-sectors")
        w = dict(wit, y=describe(y, True))
        forms = {"x op y": lambda: fn(x, y), "y op x": None}
        forms = {"operator": lambda: fn(x, y)}
        judge_forms(ctx, op, forms, x.indices, fn(d, dy), w, charge=x.charge, nontrivial=(sig, struct_sig(y)) if diff else None)
        if op in ("add", "mul"):
            judge_forms(ctx, op + "_swapped", {"operator": lambda: fn(y, x)}, x.indices, fn(dy, d), w, charge=x.charge)
        # operands whose matching legs list different charges (two results that dropped different
        # charges): the sum is defined on the union of the two tables
        if op == "add" and x.ndim and rng.random() < 0.25:
            k_ = rng.randrange(x.ndim)
            cm_y = dict(x.indices[k_].chargemap)
            free_ = [c for c in gen.POOL[sym] if c not in cm_y]
            if len(cm_y) >= 2 and rng.random() < 0.6:
                del cm_y[rng.choice(sorted(cm_y))]
            if free_ and rng.random() < 0.6:
                cm_y[rng.choice(free_)] = rng.randint(1, 2)
            if cm_y != dict(x.indices[k_].chargemap):
                iy = list(x.indices)
                iy[k_] = sr.BlockIndex(dict(sorted(cm_y.items())), dual=x.indices[k_].dual)
                yr = gen.make_array(sr, rng, sym, iy, charge=x.charge, values=vals, kind="static" if type(x).static_symmetry else "generic_str", exotic=False)
                un = dict(x.indices[k_].chargemap)
                un.update(cm_y)
                ref_u = list(x.indices)
                ref_u[k_] = sr.BlockIndex(dict(sorted(un.items())), dual=x.indices[k_].dual)
                try:
                    exp_u = embed(x, ref_u) + embed(yr, ref_u)
                except Exception:
                    exp_u = None
                if exp_u is not None and yr.blocks:
                    ctx.count("feature", "addends-with-different-charge-lists")

                    def ragged_inplace():
                        t = x.copy()
                        t += yr
                        return t

                    judge_forms(ctx, "add_ragged", {"operator": lambda: x + yr, "inplace": ragged_inplace}, ref_u, exp_u, dict(wit, y=describe(yr, True)), charge=x.charge, nontrivial=(sig, "ragged", k_))
                    # (the swapped sum stores the same blocks in another order: judged on its own)
                    judge_forms(ctx, "add_ragged_swapped", {"operator": lambda: yr + x}, ref_u, exp_u, dict(wit, y=describe(yr, True)), charge=x.charge)
        # augmented assignment with a partner that stores EXACTLY x's sectors, inserted in
        # another order (harness-built: y's values where it has them, zeros elsewhere)
        order = list(x.blocks)
        rng.shuffle(order)
        yb = {s_: (np.array(y.blocks[s_]) if s_ in y.blocks else np.zeros_like(np.asarray(x.blocks[s_]))) for s_ in order}
        kw2 = dict(indices=x.indices, charge=x.charge, blocks=yb)
        if not type(x).static_symmetry:
            kw2["symmetry"] = x.symmetry
        y2 = type(x)(**kw2)
        dy2 = embed(y2, x.indices)
        ifn = {"add": operator.iadd, "sub": operator.isub, "mul": operator.imul}[op]

        def inplace():
            t = x.copy()
            r = ifn(t, y2)
            if r is not t:
                raise AssertionError("augmented assignment returned a different object")
            return r

        ctx.count("feature", "inplace-with-reordered-partner")
        judge_forms(ctx, op + "_inplace", {"operator": inplace, "out-of-place": lambda: fn(x, y2)}, x.indices, fn(d, dy2), dict(wit, y=describe(y2, True)), charge=x.charge, nontrivial=(sig, "inplace", tuple(order)) if len(order) >= 2 else None)
    elif op == "multiply_diagonal":
        if x.ndim == 0:
            return
        axis = rng.randrange(x.ndim)
        ix = x.indices[axis]
        vblocks = {c: gen.Values(rng, "int", str(embed(x).dtype))((sz,)) for c, sz in ix.chargemap.items() if rng.random() < 0.7}
        if not vblocks:
            c = rng.choice(list(ix.chargemap))
            vblocks = {c: vals((ix.chargemap[c],))}
        v = sr.BlockVector(vblocks)
        dv = embed_vec(v, ix)
        shp = [1] * x.ndim
        shp[axis] = -1
        exp = d * dv.reshape(shp)
        forms = {"method": lambda: x.multiply_diagonal(v, axis), "function": lambda: sr.multiply_diagonal(x, v, axis), "autoray": lambda: ar.do("multiply_diagonal", x, v, axis)}
        miss = len(vblocks) < len(ix.chargemap)
        if miss:
            ctx.count("feature", "vector-missing-charges")
        judge_forms(ctx, op, forms, x.indices, exp, dict(wit, axis=axis, v={repr(k): b.tolist() if b.dtype.kind != "c" else repr(b) for k, b in vblocks.items()}), charge=x.charge, nontrivial=(sig, axis, tuple(sorted(map(repr, vblocks)))) if miss else nt)
    elif op == "sum":
        forms = {"method": lambda: x.sum(), "function": lambda: sr.sum(x), "autoray": lambda: ar.do("sum", x)}
        judge_forms(ctx, op, forms, None, d.sum(), wit, scalar=True, nontrivial=nt)
    elif op == "norm":
        forms = {"method": lambda: x.norm(), "function": lambda: sr.linalg.norm(x), "autoray": lambda: ar.do("linalg.norm", x)}
        judge_forms(ctx, op, forms, None, np.linalg.norm(d.reshape(-1)), wit, scalar=True, exact=False, scale=float(np.linalg.norm(d.reshape(-1))), nontrivial=nt)
    elif op == "abs":
        forms = {"method": lambda: x.abs(), "function": lambda: sr.abs(x), "autoray": lambda: ar.do("abs", x)}
        judge_forms(ctx, op, forms, x.indices, np.abs(d), wit, charge=x.charge, nontrivial=nt)


# ---------------------------------------------------------------------------- vectors
def rand_vector(sr, rng, ix, vals, p=0.75, positive=False):
    bl = {}
    for c, sz in ix.chargemap.items():
        if rng.random() < p:
            b = vals((sz,))
            if positive:
                b = np.abs(b) + 1.0
            bl[c] = b
    if not bl:
        c = rng.choice(list(ix.chargemap))
        b = vals((ix.chargemap[c],))
        bl[c] = np.abs(b) + 1.0 if positive else b
    return sr.BlockVector(bl)


def sub_index(sr, ix, keys):
    return sr.BlockIndex({c: d for c, d in ix.chargemap.items() if c in keys}, dual=False)


def case_vector(ctx, rng):
    import autoray as ar

    sr = ctx.sr
    sym = gen.pick_sym(rng)
    cplx = rng.random() < 0.3
    vals = gen.Values(rng, "int", "complex128" if cplx else "float64")
    ix = gen.rand_index(sr, rng, sym, maxc=4, maxd=3, p_single=0.05)
    op = rng.choice(["vv_add", "vv_sub", "vv_mul", "vv_div", "vv_pow", "vs", "sv", "abs", "sqrt", "log", "log2", "log10", "clip", "isfinite", "minmax", "neg", "inplace", "inplace", "allany", "clip_open"])
    ctx.count("vectorop", op)
    pos = op in ("sqrt", "log", "log2", "log10", "vv_pow")
    v = rand_vector(sr, rng, ix, vals, positive=pos)
    wit = {"v": {repr(k): repr(b.tolist()) for k, b in v.blocks.items()}}
    own = sub_index(sr, ix, set(v.blocks))
    dv = embed_vec(v, own)
    nt = (op, tuple(sorted(map(repr, v.blocks))), tuple(b.size for b in v.blocks.values())) if len(v.blocks) >= 2 else None
    if op.startswith("vv_"):
        w = rand_vector(sr, rng, ix, vals, positive=op in ("vv_div", "vv_pow"))
        if op == "vv_pow":
            w = sr.BlockVector({c: np.round(np.abs(b)) % 3 for c, b in w.blocks.items()})
        wit["w"] = {repr(k): repr(b.tolist()) for k, b in w.blocks.items()}
        union = sub_index(sr, ix, set(v.blocks) | set(w.blocks))
        a, b = embed_vec(v, union), embed_vec(w, union)
        fn = {"vv_add": operator.add, "vv_sub": operator.sub, "vv_mul": operator.mul, "vv_div": operator.truediv, "vv_pow": operator.pow}[op]
        diff = set(v.blocks) != set(w.blocks)
        if diff:
            ctx.count("feature", "different-sectors")
        with np.errstate(all="ignore"):
            exp = fn(a, b)
        if op in ("vv_div", "vv_pow") and diff:
            # dense result involves 0/0 or x**0 on implicit zeros: only a refusal is right
            o = ctx.call(lambda: fn(v, w))
            ctx.evaluated()
            if o.ok:
                got = embed_vec(o.value, union)
                finite = np.isfinite(exp)
                if not np.array_equal(got[finite], exp[finite]) or np.any(got[~finite] != 0):
                    ctx.violation(f"{op}-value", f"{op} with different stored sectors returned a value that is not the dense result", wit)
            elif not o.refusal:
                ctx.violation(f"{op}-raises-{o.excname}", repr(o.exc), wit)
            else:
                ctx.count("refusal", f"{op}:{o.excname}")
            return
        judge_forms(ctx, op, {"operator": lambda: fn(v, w)}, None, exp, wit, vector_ref=union, exact=op != "vv_div", scale=1.0, rtol=1e-12, nontrivial=(op, tuple(sorted(map(repr, v.blocks))), tuple(sorted(map(repr, w.blocks)))) if diff else None)
        if op in ("vv_add", "vv_mul"):
            judge_forms(ctx, op + "_swapped", {"operator": lambda: fn(w, v)}, None, fn(b, a), wit, vector_ref=union)
        return
    if op == "inplace":
        # augmented assignment: the same value as the binary operator, delivered in the left operand
        which = rng.choice(["+", "-", "*", "/", "**"])
        ifn = {"+": operator.iadd, "-": operator.isub, "*": operator.imul, "/": operator.itruediv, "**": operator.ipow}[which]
        fn = {"+": operator.add, "-": operator.sub, "*": operator.mul, "/": operator.truediv, "**": operator.pow}[which]
        with_vec = rng.random() < 0.6
        v2 = sr.BlockVector({c: np.abs(b) + 1 for c, b in v.blocks.items()}) if which in ("/", "**") else v
        if with_vec:
            # same stored sectors (what the binary operator accepts for every operator)
            w = sr.BlockVector({c: (np.round(np.abs(vals(b.shape))) % 3 + 1).astype(b.dtype) if which in ("/", "**") else vals(b.shape) for c, b in v2.blocks.items()})
            other, dother = w, embed_vec(w, own)
            wit["w"] = {repr(k): repr(b.tolist()) for k, b in w.blocks.items()}
        else:
            other = dother = rng.choice([2.0, -3.0, 0.5, 3]) if which != "**" else rng.choice([2, 3])
            wit["s"] = other
        with np.errstate(all="ignore"):
            exp = fn(embed_vec(v2, own), dother)

        def run_inplace():
            t = sr.BlockVector({c: np.array(b) for c, b in v2.blocks.items()})
            r = ifn(t, other)
            if r is not t:
                raise AssertionError("augmented assignment returned a different object")
            return r

        ctx.count("feature", "vector-inplace-" + ("vector" if with_vec else "scalar"))
        judge_forms(ctx, f"v{which}=", {"operator": run_inplace}, None, exp, wit, vector_ref=own, exact=which not in ("/", "**"), nontrivial=nt and (nt, which, with_vec))
        return
    if op == "allany":
        bv = sr.BlockVector({c: (np.abs(b) > rng.choice([0, 1, 2, 3])) for c, b in v.blocks.items()})
        dbv = embed_vec(bv, own)
        judge_forms(ctx, "all", {"method": lambda: bv.all(), "function": lambda: sr.all(bv), "autoray": lambda: ar.do("all", bv)}, None, bool(dbv.all()), wit, scalar=True, nontrivial=nt)
        judge_forms(ctx, "any", {"method": lambda: bv.any(), "function": lambda: sr.any(bv), "autoray": lambda: ar.do("any", bv)}, None, bool(dbv.any()), wit, scalar=True)
        return
    if op == "clip_open":
        # one-sided and zero bounds
        lo, hi = rng.choice([(0, None), (None, 0), (0.0, None), (None, 0.0), (0, 0), (None, 2), (-1, None), (0, 2), (-2, 0)])
        if cplx:
            v = sr.BlockVector({c: b.real.copy() for c, b in v.blocks.items()})
            dv = dv.real
        forms = {"method": lambda: v.clip(lo, hi), "function": lambda: sr.clip(v, lo, hi), "autoray": lambda: ar.do("clip", v, lo, hi)}
        judge_forms(ctx, "clip", forms, None, np.clip(dv, lo, hi), dict(wit, lo=lo, hi=hi), vector_ref=own, nontrivial=nt)
        return
    if op in ("vs", "sv"):
        s = rng.choice([2.0, -3.0, 0.5, 3])
        which = rng.choice(["+", "-", "*", "/", "**"])
        fn = {"+": operator.add, "-": operator.sub, "*": operator.mul, "/": operator.truediv, "**": operator.pow}[which]
        if which == "**":
            s = rng.choice([2, 3, 0.5 if not cplx else 2])
            v2 = sr.BlockVector({c: np.abs(b) + 1 for c, b in v.blocks.items()})
            dv2 = embed_vec(v2, own)
        else:
            v2, dv2 = v, dv
        if op == "vs":
            judge_forms(ctx, f"v{which}s", {"operator": lambda: fn(v2, s)}, None, fn(dv2, s), dict(wit, s=s), vector_ref=own, exact=which not in ("/", "**"), nontrivial=nt and (nt, which))
        else:
            with np.errstate(all="ignore"):
                exp = fn(s, dv2)
            judge_forms(ctx, f"s{which}v", {"operator": lambda: fn(s, v2)}, None, exp, dict(wit, s=s), vector_ref=own, exact=which not in ("/", "**"), nontrivial=nt and (nt, which))
        return
    if op == "neg":
        judge_forms(ctx, op, {"operator": lambda: -v}, None, -dv, wit, vector_ref=own, nontrivial=nt)
        return
    if op in ("abs", "sqrt", "log", "log2", "log10", "isfinite"):
        npf = getattr(np, op)
        forms = {"function": lambda: getattr(sr, op)(v), "autoray": lambda: ar.do(op, v)}
        if hasattr(v, op) or op in ("abs", "sqrt", "isfinite"):
            forms["method"] = lambda: getattr(v, op)()
        judge_forms(ctx, op, forms, None, npf(dv), wit, vector_ref=own, exact=op in ("abs", "isfinite"), rtol=1e-13, scale=float(np.max(np.abs(npf(dv)))) if dv.size else 1.0, nontrivial=nt)
        return
    if op == "clip":
        lo, hi = sorted([rng.randint(-3, 0), rng.randint(0, 3)])
        if cplx:
            v = sr.BlockVector({c: b.real.copy() for c, b in v.blocks.items()})
            dv = dv.real
        forms = {"method": lambda: v.clip(lo, hi), "function": lambda: sr.clip(v, lo, hi), "autoray": lambda: ar.do("clip", v, lo, hi)}
        judge_forms(ctx, op, forms, None, np.clip(dv, lo, hi), dict(wit, lo=lo, hi=hi), vector_ref=own, nontrivial=nt)
        return
    if op == "minmax":
        if cplx:
            v = sr.BlockVector({c: b.real.copy() for c, b in v.blocks.items()})
            dv = dv.real
        judge_forms(ctx, "max", {"method": lambda: v.max(), "function": lambda: sr.max(v), "autoray": lambda: ar.do("max", v)}, None, dv.max(), wit, scalar=True, nontrivial=nt)
        judge_forms(ctx, "min", {"method": lambda: v.min(), "function": lambda: sr.min(v), "autoray": lambda: ar.do("min", v)}, None, dv.min(), wit, scalar=True)
        judge_forms(ctx, "sum", {"method": lambda: v.sum(), "function": lambda: sr.sum(v), "autoray": lambda: ar.do("sum", v)}, None, dv.sum(), wit, scalar=True)


def run(ctx):
    for _, rng in ctx.cases("arrays", ctx.budget(250000, 4000000)):
        ctx.run_case(case_array, ctx, rng)
    for _, rng in ctx.cases("vectors", ctx.budget(170000, 3000000)):
        ctx.run_case(case_vector, ctx, rng)
