"""C18 — local fermionic operator arrays reproduce the second-quantised operator."""
import itertools
import warnings

import numpy as np

from symv import fock, gen
from symv import refsym as R
from symv.audit import audit
from symv.dense import describe, embed, phases_of

META = {
    "level": "exploration",
    "level_text": "(i) every element returned by build_local_fermionic_elements / _dense for random term lists and bases equals the vacuum expectation value computed in an explicit Jordan-Wigner Fock space (exact arithmetic); (ii) for complete local bases and charge-conserving Hermitian term sets the linear map psi -> tensordot(G, psi) on all basis state tensors of every charge is Hermitian, has exactly the Fock spectrum, and maps compose as the operators do (M_B M_A = M_BA) - three statements invariant under the one diagonal sign convention the property allows; (iii) the five model builders equal the documented formula evaluated in the Fock model, in every supported symmetry, with no weight outside charge-conserving sectors. Seeded random exploration. Later additions: exactly cancelling term lists, half filling (mu = U/2), coefficients as int / numpy scalar / shared 0-d arrays that must come back unchanged, editing the returned table and repeating the request.",
    "technique": "runtime monitoring: reference-model oracle (Jordan-Wigner Fock space), convention-invariant law checks on the induced linear map",
    "rule": (
        "one evaluation = one builder call compared with the Fock model (elements), or one operator array applied to all basis states (map laws), or one model builder call. "
        "Non-trivial = a term with >=2 distinct modes on >=2 sites and (spinful) a doubly occupied state in the basis, non-zero result; distinct by (terms, bases, symmetry)."
    ),
    "anchors": ["fermionic_local_operators.build_local_fermionic_elements", "fermionic_local_operators.build_local_fermionic_array", "fermionic_local_operators._dagger_basis", "fermionic_local_operators.fermi_hubbard_local_array", "fermionic_local_operators.fermi_hubbard_spinless_local_array", "utils.from_dense"],
    "floors": {
        "quick": {"evaluations": 1500, "distinct_nontrivial": 300, "tables": {"stream/elements": 600, "stream/map-laws": 150, "stream/models": 300, "symmetry/Z2Z2": 30, "symmetry/U1U1": 30}},
        "thorough": {"evaluations": 40000, "distinct_nontrivial": 8000, "tables": {"stream/map-laws": 4000}},
    },
    "wall": {"quick": 900, "thorough": 1700},
}


def FO(sr, label, creation):
    return sr.FermionicOperator(label, dual=bool(creation))


def to_lib_term(sr, rng, term):
    """(label, creation) pairs -> FermionicOperator instances or (label, '+'/'-') tuples."""
    if rng.random() < 0.5:
        return tuple(FO(sr, l, c) for l, c in term)
    return tuple((l, "+" if c else "-") for l, c in term)


def case_elements(ctx, rng):
    sr = ctx.sr
    nsites = rng.randint(1, 3)
    mps = [rng.randint(1, 2) for _ in range(nsites)]
    while sum(mps) > 4:
        mps[rng.randrange(nsites)] = 1
    bases, allmodes = [], []
    has_double = False
    for s, nm in enumerate(mps):
        ms = [f"m{s}{k}" for k in range(nm)] if rng.random() < 0.7 else [(s, k) for k in range(nm)]
        allmodes += ms
        states = []
        for occ in itertools.product([0, 1], repeat=nm):
            ops = [(m, True) for m, o in zip(ms, occ) if o]
            rng.shuffle(ops)
            states.append(tuple(ops))
        rng.shuffle(states)
        states = states[: rng.randint(1, len(states))]
        has_double |= any(len(st) == 2 for st in states)
        bases.append(states)
    if len({type(m) for m in allmodes}) > 1:
        allmodes = [str(m) for m in allmodes]
        bases = [[tuple((str(l), c) for l, c in st) for st in b] for b in bases]
    terms = []
    for _ in range(rng.randint(1, 4)):
        L = rng.randint(0, 6)
        t = tuple((m, rng.random() < 0.5) for m in rng.choices(allmodes, k=L))
        terms.append((rng.choice([1.0, -1.0, 0.5, 2.0, -0.25, 0.0]), t))
    if rng.random() < 0.3 and terms:
        # contributions to one element that cancel exactly (then possibly revive): the same
        # operator string again with the opposite coefficient, anticommutator-style pairs
        c0_, t0_ = rng.choice(terms)
        extra_ = [(-c0_, t0_)]
        if rng.random() < 0.5:
            extra_.append((rng.choice([1.0, 0.5, -2.0]), t0_))
        if len(t0_) >= 2 and rng.random() < 0.5:
            # swapping two adjacent different operators flips the sign: c*AB + c*BA-type pairs
            k_ = rng.randrange(len(t0_) - 1)
            if t0_[k_] != t0_[k_ + 1] and t0_[k_][0] != t0_[k_ + 1][0]:
                sw = list(t0_)
                sw[k_], sw[k_ + 1] = sw[k_ + 1], sw[k_]
                extra_.append((c0_, tuple(sw)))
        for e_ in extra_:
            terms.insert(rng.randint(0, len(terms)), e_)
        ctx.count("feature", "cancelling-terms")
    passed = []
    shared = {}

    def coeff_obj(c):
        # equal coefficients are sometimes ONE shared object (as when a parameter is reused)
        if c in shared and rng.random() < 0.7:
            return shared[c]
        shared[c] = gen.typed_number(rng, c, passed)
        return shared[c]

    lib_terms = [(coeff_obj(c), to_lib_term(sr, rng, t)) for c, t in terms]
    lib_bases = [[to_lib_term(sr, rng, st) for st in b] for b in bases]
    wit = {"terms": repr(terms), "bases": repr(bases), "coefficient_types": sorted({type(o_).__name__ for o_, _ in passed})}
    o = ctx.call(sr.build_local_fermionic_elements, lib_terms, lib_bases)
    ctx.evaluated()
    ctx.count("stream", "elements")
    if not o.ok:
        ctx.violation(f"elements-raises-{o.excname}", repr(o.exc), wit)
        return
    got = {k: float(np.real(v)) if np.ndim(v) == 0 and not np.iscomplexobj(v) else complex(v) for k, v in o.value.items()}
    for obj_, val_ in passed:
        if float(obj_) != val_:
            ctx.violation("coefficient-object-modified", f"a coefficient passed as {type(obj_).__name__} held {val_} before build_local_fermionic_elements and {float(obj_)} after it", wit)
            return
    if any(isinstance(o_, np.ndarray) for o_, _ in passed):
        ctx.count("feature", "0-d-array-coefficients")
    exp = fock.vev_elements([(c, list(t)) for c, t in terms], bases)
    keys = set(got) | set(exp)
    bad = {k: (got.get(k, 0.0), exp.get(k, 0.0)) for k in keys if abs(got.get(k, 0.0) - exp.get(k, 0.0)) > 1e-12}
    if bad:
        ctx.violation("element-value", f"elements differ from the vacuum expectation values: {dict(list(bad.items())[:4])} (index: (library, Fock))", wit)
        return
    # the returned table is the caller's: editing it must not change what an equal request
    # returns afterwards
    if rng.random() < 0.3 and o.value:
        try:
            for k_ in list(o.value):
                o.value[k_] = o.value[k_] * -3.0
            o.value.pop(next(iter(o.value)))
        except Exception:
            pass
        o_again = ctx.call(sr.build_local_fermionic_elements, [(c_, to_lib_term(sr, rng, t_)) for c_, t_ in terms], lib_bases)
        ctx.evaluated()
        ctx.count("feature", "repeat-after-editing-the-returned-table")
        if o_again.ok:
            g2 = {k: complex(v) for k, v in o_again.value.items()}
            bad2 = {k: (g2.get(k, 0.0), exp.get(k, 0.0)) for k in set(g2) | set(exp) if abs(g2.get(k, 0.0) - exp.get(k, 0.0)) > 1e-12}
            if bad2:
                ctx.violation("element-value-after-editing-earlier-result", f"after the caller edited the table returned by an earlier equal request, the elements differ from the vacuum expectation values: {dict(list(bad2.items())[:3])}", wit)
                return
    # dense builder consistent
    from symmray.fermionic_local_operators import build_local_fermionic_dense

    o2 = ctx.call(build_local_fermionic_dense, lib_terms, lib_bases)
    ctx.evaluated()
    if not o2.ok:
        ctx.violation(f"dense-raises-{o2.excname}", repr(o2.exc), wit)
        return
    dims = tuple(len(b) for b in bases) * 2
    E = np.zeros(dims)
    for k, v in exp.items():
        E[k] = v
    if np.asarray(o2.value).shape != dims or not np.allclose(np.asarray(o2.value), E, atol=1e-12):
        ctx.violation("dense-value", "build_local_fermionic_dense differs from the Fock elements", wit)
        return
    multi = any(len({l for l, _ in t}) >= 2 and len({str(l)[1] if isinstance(l, str) else l[0] for l, _ in t}) >= 2 for c, t in terms if c)
    if exp and multi and (has_double or max(mps) == 1):
        ctx.nontrivial(("el", repr(terms), repr(bases)))
        ctx.sample({"terms": repr(terms), "bases": repr(bases), "nonzero_elements": len(exp)}, limit=2)


def charge_of(sym, occ_by_mode, spin_of):
    nu = sum(o for m, o in occ_by_mode.items() if spin_of[m] in ("u", None))
    nd = sum(o for m, o in occ_by_mode.items() if spin_of[m] == "d")
    if sym == "Z2":
        return (nu + nd) % 2
    if sym == "U1":
        return nu + nd
    if sym == "Z2Z2":
        return (nu % 2, nd % 2)
    if sym == "U1U1":
        return (nu, nd)


def apply_map(ctx, G, sym, index_maps, nsites, dims):
    """matrix of psi -> tensordot(G, psi) on the product basis states (linear-index order)."""
    sr = ctx.sr
    N = int(np.prod(dims))
    M = np.zeros((N, N), dtype=complex)
    cls = gen.static_class(sr, sym, True)
    idx = []
    for s in range(nsites):
        cm = {}
        for c in index_maps[s]:
            cm[c] = cm.get(c, 0) + 1
        idx.append(sr.BlockIndex(cm, dual=False))
    for e in itertools.product(*[range(d) for d in dims]):
        sector = tuple(index_maps[s][e[s]] for s in range(nsites))
        blk = np.zeros(tuple(idx[s].chargemap[sector[s]] for s in range(nsites)))
        pos = tuple(sum(1 for j in range(e[s]) if index_maps[s][j] == sector[s]) for s in range(nsites))
        blk[pos] = 1.0
        ch = R.comb(sym, list(sector))
        kw = {"oddpos": 7} if R.par(sym, ch) else {}
        psi = cls(idx, charge=ch, blocks={sector: blk}, **kw)
        o = ctx.call(sr.tensordot, G, psi, axes=[tuple(range(nsites, 2 * nsites)), tuple(range(nsites))], preserve_array=True)
        if not o.ok:
            return o
        out = o.value
        ph = phases_of(out)
        for sec2, b2 in out.blocks.items():
            b2 = np.asarray(b2) * ph.get(sec2, 1)
            for p2 in itertools.product(*[range(n) for n in b2.shape]):
                if b2[p2] != 0:
                    e2 = tuple([j for j in range(dims[s]) if index_maps[s][j] == sec2[s]][p2[s]] for s in range(nsites))
                    M[np.ravel_multi_index(e2, dims), np.ravel_multi_index(e, dims)] = b2[p2]
    return M


def case_maplaws(ctx, rng):
    sr = ctx.sr
    sym = rng.choice(["Z2", "U1", "Z2Z2", "U1U1"])
    spinful = sym in ("Z2Z2", "U1U1") or rng.random() < 0.5
    nsites = rng.randint(1, 2) if spinful else rng.randint(1, 3)
    bases, index_maps, allmodes, spin_of = [], [], [], {}
    for s in range(nsites):
        ms = [f"m{s}u", f"m{s}d"] if spinful else [f"m{s}"]
        for m in ms:
            spin_of[m] = m[-1] if spinful else None
        allmodes += ms
    for s in range(nsites):
        ms = [m for m in allmodes if m.startswith(f"m{s}")]
        states = []
        for occ in itertools.product([0, 1], repeat=len(ms)):
            ops = [(m, True) for m, o in zip(ms, occ) if o]
            rng.shuffle(ops)
            states.append((tuple(ops), dict(zip(ms, occ))))
        rng.shuffle(states)
        bases.append([st for st, _ in states])
        index_maps.append([charge_of(sym, {**{m: 0 for m in spin_of}, **occ}, spin_of) for _, occ in states])

    def rand_conserving_term():
        k = rng.randint(0, 2)
        t = []
        for _ in range(k):
            sp = rng.choice(["u", "d"]) if spinful else None
            cand = [m for m in allmodes if spin_of[m] == sp]
            t += [(rng.choice(cand), True), (rng.choice(cand), False)]
        rng.shuffle(t)
        return tuple(t)

    def herm(terms):
        return terms + [(c, tuple((l, not cr) for l, cr in reversed(t))) for c, t in terms]

    tA = herm([(rng.choice([1.0, -0.5, 2.0, 0.25]), rand_conserving_term()) for _ in range(rng.randint(1, 3))])
    tB = herm([(rng.choice([1.0, -0.5, 2.0, 0.25]), rand_conserving_term()) for _ in range(rng.randint(1, 3))])
    tBA = [(cb * ca, tb + ta) for cb, tb in tB for ca, ta in tA]
    wit = {"symmetry": sym, "spinful": spinful, "bases": repr(bases), "index_maps": repr(index_maps), "termsA": repr(tA), "termsB": repr(tB)}
    ctx.count("stream", "map-laws")
    ctx.count("symmetry", sym)
    lib = lambda terms: [(c, tuple(FO(sr, l, cr) for l, cr in t)) for c, t in terms]
    lbases = [[tuple(FO(sr, l, cr) for l, cr in st) for st in b] for b in bases]
    arrays = []
    for terms in (tA, tB, tBA):

        def build(terms=terms):
            with warnings.catch_warnings():
                warnings.simplefilter("error", UserWarning)
                return sr.build_local_fermionic_array(lib(terms), lbases, sym, index_maps)

        o = ctx.call(build)
        ctx.evaluated()
        if not o.ok:
            mech = "operator-weight-outside-valid-sectors" if isinstance(o.exc, UserWarning) else f"build-array-raises-{o.excname}"
            ctx.violation(mech, repr(o.exc), wit)
            return
        errs = audit(o.value)
        if errs:
            ctx.violation("operator-array-invalid", str(errs[:2]), wit)
            return
        arrays.append(o.value)
    dims = [len(b) for b in bases]
    Ms = []
    for G in arrays:
        M = apply_map(ctx, G, sym, index_maps, nsites, dims)
        if not isinstance(M, np.ndarray):
            ctx.violation(f"apply-raises-{M.excname}", repr(M.exc), wit)
            return
        Ms.append(M)
    MA, MB, MBA = Ms
    FA = fock.fock_matrix(tA, bases)
    ctx.evaluated()
    if not np.allclose(MA, MA.conj().T, atol=1e-12):
        ctx.violation("map-not-hermitian", "the map induced by a Hermitian term set is not Hermitian", wit)
        return
    if not np.allclose(np.linalg.eigvalsh((MA + MA.conj().T) / 2), np.linalg.eigvalsh((FA + FA.conj().T) / 2), atol=1e-10):
        ctx.violation("map-spectrum", f"spectrum {np.round(np.linalg.eigvalsh((MA + MA.conj().T) / 2), 6)} != Fock spectrum {np.round(np.linalg.eigvalsh(FA), 6)}", wit)
        return
    if not np.allclose(MB @ MA, MBA, atol=1e-10):
        ctx.violation("map-product-law", "applying A then B differs from applying the array of the product operator BA", wit)
        return
    # the allowed convention is one fixed diagonal sign: |M| must equal |F| element-wise
    if not np.allclose(np.abs(MA), np.abs(FA), atol=1e-10):
        ctx.violation("map-magnitudes", "matrix elements differ in magnitude from the Fock operator", wit)
        return
    multi = any(len({l for l, _ in t}) >= 2 and len({l[:2] for l, _ in t}) >= 2 for c, t in tA)
    if np.any(MA != 0) and multi and (spinful or nsites >= 2):
        ctx.nontrivial(("map", sym, spinful, repr(tA), repr(bases)))
        ctx.sample({"symmetry": sym, "spinful": spinful, "termsA": repr(tA), "bases": repr(bases), "index_maps": repr(index_maps), "dim": int(np.prod(dims))}, limit=2)


def expected_model(terms, bases, index_maps):
    """dense operator tensor in charge-sorted order (what from_dense + embed produce)."""
    exp = fock.vev_elements(terms, bases)
    dims = tuple(len(b) for b in bases) * 2
    E = np.zeros(dims)
    for k, v in exp.items():
        E[k] = v
    orders = [sorted(range(len(m)), key=lambda i: (m[i], i)) for m in index_maps * 2]
    return E[np.ix_(*orders)]


def case_models(ctx, rng):
    sr = ctx.sr
    model = rng.choice(["hubbard", "hubbard", "spinless", "spinless", "n_spinless", "n_spinful", "spin"])
    spinful = model in ("hubbard", "n_spinful", "spin")
    sym = rng.choice(["Z2", "U1", "Z2Z2", "U1U1"] if spinful else ["Z2", "U1"])
    t = rng.choice([1.0, 0.5, -2.0])
    U = (rng.choice([8.0, 1.0, 0.0]), rng.choice([8.0, 3.0])) if rng.random() < 0.5 else rng.choice([8.0, 2.0])
    V = rng.choice([8.0, 0.0, 1.5])
    mu = (rng.choice([0.0, 0.5]), rng.choice([0.25, -1.0])) if rng.random() < 0.5 else rng.choice([0.0, 0.75])
    if rng.random() < 0.25:
        # half filling: mu = U / 2 makes on-site contributions cancel exactly
        mu = tuple(u_ / 2 for u_ in U) if isinstance(U, tuple) else U / 2
        if rng.random() < 0.5:
            coord_hint = True
    coord = (rng.randint(1, 4), rng.randint(1, 4)) if rng.random() < 0.7 else None
    c0, c1 = coord or (1, 1)
    pair = lambda v: v if isinstance(v, tuple) else (v, v)
    spinful_map = {"Z2": [0, 1, 1, 0], "U1": [0, 1, 1, 2], "Z2Z2": [(0, 0), (0, 1), (1, 0), (1, 1)], "U1U1": [(0, 0), (0, 1), (1, 0), (1, 1)]}
    C, A = True, False
    if model == "hubbard":
        Ua, Ub = pair(U)
        mua, mub = pair(mu)
        terms = [(-t, [("au", C), ("bu", A)]), (-t, [("bu", C), ("au", A)]), (-t, [("ad", C), ("bd", A)]), (-t, [("bd", C), ("ad", A)]),
                 (Ua / c0, [("au", C), ("au", A), ("ad", C), ("ad", A)]), (Ub / c1, [("bu", C), ("bu", A), ("bd", C), ("bd", A)]),
                 (-mua / c0, [("au", C), ("au", A)]), (-mua / c0, [("ad", C), ("ad", A)]), (-mub / c1, [("bu", C), ("bu", A)]), (-mub / c1, [("bd", C), ("bd", A)])]
        bases = [[(), (("ad", C),), (("au", C),), (("au", C), ("ad", C))], [(), (("bd", C),), (("bu", C),), (("bu", C), ("bd", C))]]
        maps = [spinful_map[sym]] * 2
        kw = dict(t=t, U=U, mu=mu)
        if coord:
            kw["coordinations"] = coord
        fn = lambda: sr.fermi_hubbard_local_array(sym, **kw)
    elif model == "spinless":
        mua, mub = pair(mu)
        terms = [(-t, [("a", C), ("b", A)]), (-t, [("b", C), ("a", A)]), (V, [("a", C), ("a", A), ("b", C), ("b", A)]), (-mua / c0, [("a", C), ("a", A)]), (-mub / c1, [("b", C), ("b", A)])]
        bases = [[(), (("a", C),)], [(), (("b", C),)]]
        maps = [[0, 1]] * 2
        kw = dict(t=t, V=V, mu=mu)
        if coord:
            kw["coordinations"] = coord
        fn = lambda: sr.fermi_hubbard_spinless_local_array(sym, **kw)
    elif model == "n_spinless":
        terms = [(1, [("a", C), ("a", A)])]
        bases = [[(), (("a", C),)]]
        maps = [[0, 1]]
        kw = {}
        fn = lambda: sr.fermi_number_operator_spinless_local_array(sym)
    elif model == "n_spinful":
        terms = [(1, [("au", C), ("au", A)]), (1, [("ad", C), ("ad", A)])]
        bases = [[(), (("ad", C),), (("au", C),), (("au", C), ("ad", C))]]
        maps = [spinful_map[sym]]
        kw = {}
        fn = lambda: sr.fermi_number_operator_spinful_local_array(sym)
    else:
        terms = [(0.5, [("au", C), ("au", A)]), (-0.5, [("ad", C), ("ad", A)])]
        bases = [[(), (("ad", C),), (("au", C),), (("au", C), ("ad", C))]]
        maps = [spinful_map[sym]]
        kw = {}
        fn = lambda: sr.fermi_spin_operator_local_array(sym)
    wit = {"model": model, "symmetry": sym, "kwargs": repr(kw)}

    def build():
        with warnings.catch_warnings():
            warnings.simplefilter("error", UserWarning)
            return fn()

    o = ctx.call(build)
    ctx.evaluated()
    ctx.count("stream", "models")
    ctx.count("symmetry", sym)
    ctx.count("model", model)
    if not o.ok:
        mech = "model-weight-outside-valid-sectors" if isinstance(o.exc, UserWarning) else f"model-raises-{o.excname}"
        ctx.violation(mech, repr(o.exc), wit)
        return
    G = o.value
    errs = audit(G)
    if errs:
        ctx.violation("model-array-invalid", str(errs[:2]), wit)
        return
    n = len(bases)
    if [bool(ix.dual) for ix in G.indices] != [False] * n + [True] * n:
        ctx.violation("model-directions", f"directions {[ix.dual for ix in G.indices]}", wit)
        return
    want_tables = [{c: m.count(c) for c in sorted(set(m))} for m in maps * 2]
    if [dict(ix.chargemap) for ix in G.indices] != want_tables or G.charge != R.identity(sym):
        ctx.violation("model-charge-tables", f"{[dict(ix.chargemap) for ix in G.indices]} charge {G.charge!r}", wit)
        return
    exp = expected_model(terms, bases, maps)
    if not np.allclose(embed(G), exp, atol=1e-12):
        ctx.violation("model-value", f"model array differs from the documented formula in the Fock model, max|diff| {np.abs(embed(G) - exp).max()}", wit)
        return
    ctx.nontrivial(("model", model, sym, repr(kw)))
    ctx.sample(wit, limit=2)


def run(ctx):
    for _, rng in ctx.cases("elements", ctx.budget(14000, 250000)):
        ctx.run_case(case_elements, ctx, rng)
    for _, rng in ctx.cases("map-laws", ctx.budget(3800, 60000)):
        ctx.run_case(case_maplaws, ctx, rng)
    for _, rng in ctx.cases("models", ctx.budget(8000, 120000)):
        ctx.run_case(case_models, ctx, rng)
