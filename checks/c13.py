"""C13 — truncated SVD keeps exactly what its cutoff and bond limit prescribe."""
import numpy as np

from symv import cmp, gen, lingen
from symv import refsym as R
from symv.audit import audit
from symv.dense import describe, embed, phases_of, struct_sig

META = {
    "level": "exploration",
    "level_text": "The full spectrum is obtained independently (numpy SVD of every input block); the truncation rule of the selected mode (absolute, relative, cumulative weight squared or not, absolute or relative) intersected with the bond limit is evaluated by the harness and compared with what svd_truncated kept: per-charge counts and values, min kept >= max discarded, per-charge largest; over a ladder of increasing cutoffs (a recorded history per matrix and mode) the kept count must never increase; without cutoff the bond equals the limit and each charge keeps its largest values; ||x - U S V+||^2 equals the discarded squared weight; all absorb options give the product U diag(s) V+; factors pass the C01 audit and their bond tables match the block shapes. Values within a relative 1e-9 band of a decision threshold make the case inconclusive (counted, not judged). Later additions: decisions taken on the library's own untruncated spectrum (bit-identical values) with a 2e-14 band, spectra with exact repeats and with values a few 1e-13 apart, 4-6 charges, data rescaled by 1e-100 .. 1e100, exact ties cutting through a count-defined threshold are inconclusive, the renorm option must refuse or renormalise. Round 9: spectra of 260-520 values (geometric over 3-8 decades) with cutoff and bond limit combined; integer-typed and null-row blocks. Round 10: one ndarray object stored under several sectors.",
    "technique": "runtime monitoring: independent rule oracle on an independently computed spectrum + offline monotonicity checker over a cutoff ladder",
    "rule": (
        "one evaluation = one svd_truncated call (function or autoray form) judged against the rule oracle. Per matrix: 6 modes x a ladder of cutoffs from 1e-12 through spectrum quantiles to "
        "exactly / 1.5x / 1000x the total weight x bond limits (1..rank+2, -1) x absorb options. Non-trivial = at least one value kept and one discarded, or a whole charge removed, "
        "or cutoff >= total weight; distinct by (structure signature, mode, cutoff class, bond limit)."
    ),
    "anchors": ["linalg.svd_truncated", "linalg.calc_sub_max_bonds", "block_core.BlockVector.to_dense"],
    "floors": {
        "quick": {"evaluations": 6000, "distinct_nontrivial": 1500, "tables": {"mode": 5000, "outcome/some-kept-some-discarded": 1200, "outcome/whole-charge-removed": 300, "outcome/everything-discarded": 100, "ladder": 400, "absorb": 1500, "nocutoff": 500, "feature/four-or-more-charges": 300, "feature/more-than-256-singular-values": 40}},
        "thorough": {"evaluations": 200000, "distinct_nontrivial": 40000, "tables": {"outcome/everything-discarded": 3000}},
    },
    "wall": {"quick": 900, "thorough": 1500},
}

BAND = 1e-9
# When the decision spectrum is the library's OWN untruncated svd of the same input (checked
# against the independent numpy spectrum first; C12 judges that equality), svd_truncated works
# on bit-identical values and only the order of a few additions can differ: the band shrinks.
BAND_TIGHT = 2e-14
_band = [BAND]


def spectrum(x):
    out = {}
    for (c0, c1), b in x.blocks.items():
        out[c1] = np.linalg.svd(np.asarray(b), compute_uv=False)
    return out


def expected_counts(spec, cutoff, mode, max_bond):
    """-> (dict charge -> count, near_threshold: bool)"""
    alls = np.sort(np.concatenate(list(spec.values())))
    N = len(alls)
    near = False
    if cutoff > 0:
        if mode == 1:
            thr = cutoff
        elif mode == 2:
            thr = alls[-1] * cutoff
        else:
            p = 2 if mode in (3, 4) else 1
            cum = np.cumsum(alls**p)
            T = cutoff * cum[-1] if mode in (4, 6) else cutoff
            if np.any(np.abs(cum - T) <= _band[0] * max(abs(T), 1e-300)):
                near = True
            nkeep = int(np.count_nonzero(cum >= T))
            thr = alls[-nkeep] if nkeep > 0 else np.inf
        if mode in (1, 2) and np.any(np.abs(alls - thr) <= _band[0] * max(thr, 1e-300)):
            near = True  # a value sits on the cutoff itself
        if 0 < max_bond < N:
            thr = max(thr, alls[-max_bond])
        if np.isfinite(thr):
            # thr may now BE one of the values (rank threshold): only OTHER values within the band matter
            d = np.abs(alls - thr)
            close = d <= _band[0] * max(thr, 1e-300)
            exact = alls == thr
            if np.any(close & ~exact):
                near = True
            # bit-identical values on both sides of a count-defined threshold (cumulative rule
            # or bond limit cutting through a tie): which of the equal values goes is not
            # decided by the rule
            if mode in (1, 2):
                k_rule = int(np.count_nonzero(alls >= (cutoff if mode == 1 else alls[-1] * cutoff)))
            else:
                k_rule = nkeep
            if 0 < max_bond < N:
                k_rule = min(k_rule, max_bond)
            if int(np.count_nonzero(alls >= thr)) != k_rule:
                near = True
        return {c: int(np.count_nonzero(s >= thr)) for c, s in spec.items()}, near
    return None, False


def run_truncated(ctx, x, via, **kw):
    import autoray as ar

    sr = ctx.sr
    if via == "function":
        return ctx.call(lambda: sr.linalg.svd_truncated(x, **kw))
    return ctx.call(lambda: ar.do("svd_truncated", x, **kw))


def kept_of(U, s, VH):
    return {c: np.asarray(v) for c, v in s.blocks.items()}


def judge(ctx, x, spec, cutoff, mode, max_bond, via, wit, tagsig):
    """One call with absorb=None judged against the oracle. -> total kept count or None."""
    sr = ctx.sr
    kw = dict(cutoff=cutoff, cutoff_mode=mode, max_bond=max_bond, absorb=None)
    o = run_truncated(ctx, x, via, **kw)
    ctx.evaluated()
    ctx.count("mode", str(mode) if cutoff > 0 else "nocutoff")
    w = dict(wit, **{k: (float(v) if isinstance(v, float) else v) for k, v in kw.items()}, via=via)
    V = lambda mech, msg: ctx.violation(mech, f"svd_truncated(cutoff={cutoff!r}, cutoff_mode={mode}, max_bond={max_bond}): {msg}", w)
    if not o.ok:
        V(f"raises-{o.excname}", repr(o.exc))
        return None
    U, s, VH = o.value
    if s is None:
        V("absorb-none-returns-no-s", "absorb=None did not return the singular values")
        return None
    for nm, f_ in (("U", U), ("s", s), ("VH", VH)):
        errs = audit(f_)
        if errs:
            V(f"invalid-{nm}", "; ".join(errs[:3]))
            return None
    kept = kept_of(U, s, VH)
    # bond tables match the blocks
    bu, bv = U.indices[1], VH.indices[0]
    want_table = {c: len(v) for c, v in kept.items()}
    if dict(bu.chargemap) != want_table or dict(bv.chargemap) != want_table:
        V("bond-table", f"bond tables {dict(bu.chargemap)} / {dict(bv.chargemap)} != kept counts {want_table}")
        return None
    for (c0, c1), b in U.blocks.items():
        if c1 not in kept or np.asarray(b).shape[1] != len(kept[c1]):
            V("u-block-shape", f"U block {(c0, c1)} has {np.asarray(b).shape[1]} columns, {len(kept.get(c1, []))} singular values kept")
            return None
    for (c1, c2), b in VH.blocks.items():
        if c1 not in kept or np.asarray(b).shape[0] != len(kept[c1]):
            V("vh-block-shape", f"VH block {(c1, c2)}")
            return None
    if set(c1 for _, c1 in U.blocks) != set(kept) or set(c1 for c1, _ in VH.blocks) != set(kept):
        V("factor-sectors", "sectors of U / VH do not match the kept charges")
        return None
    if any(len(v) == 0 for v in kept.values()):
        V("empty-sector-kept", "a charge with zero kept values is still stored")
        return None
    total = sum(len(v) for v in spec.values())
    nk = sum(len(v) for v in kept.values())
    # per charge: the kept values are that charge's largest
    for c, v in kept.items():
        if c not in spec or len(v) > len(spec[c]) or not np.allclose(v, spec[c][: len(v)], atol=1e-9 * float(max(v_[0] for v_ in spec.values())), rtol=0):
            V("not-the-largest-of-its-charge", f"charge {c!r}: kept {v} are not the largest of {spec.get(c)}")
            return None
    disc = np.concatenate([spec[c][len(kept.get(c, [])) :] for c in spec]) if spec else np.zeros(0)
    allk = np.concatenate(list(kept.values())) if kept else np.zeros(0)
    if cutoff > 0:
        exp, near = expected_counts(spec, cutoff, mode, max_bond)
        if near:
            ctx.inconc("value-within-threshold-band")
            ctx.count("outcome", "near-threshold-inconclusive")
            return nk
        got = {c: len(kept.get(c, [])) for c in spec}
        if got != exp:
            everything = all(got[c] == len(spec[c]) for c in spec)
            nothing_expected = all(v == 0 for v in exp.values())
            mech = "kept-set"
            if everything and nothing_expected and mode in (3, 4, 5, 6):
                mech = "cumulative-cutoff-beyond-total-keeps-everything"
            V(mech, f"kept per charge {got} != rule {exp} (spectrum { {repr(c): np.round(v, 6).tolist() for c, v in spec.items()} })")
            return None
        if len(allk) and len(disc) and allk.min() < disc.max() * (1 - 1e-9):
            V("kept-smaller-than-discarded", f"min kept {allk.min()} < max discarded {disc.max()}")
            return None
    else:
        want_total = total if max_bond < 0 else min(max_bond, total)
        ctx.count("nocutoff", "judged")
        if nk != want_total:
            V("nocutoff-bond", f"kept {nk} values, bond limit {max_bond}, rank count {total}")
            return None
    # outcome classes
    if nk == 0:
        ctx.count("outcome", "everything-discarded")
    elif nk < total:
        ctx.count("outcome", "some-kept-some-discarded")
    else:
        ctx.count("outcome", "everything-kept")
    removed = [c for c in spec if c not in kept]
    if removed and nk:
        ctx.count("outcome", "whole-charge-removed")
    # reconstruction error = discarded weight
    dx = embed(x)
    if nk:
        orec = ctx.call(lambda: sr.tensordot(sr.multiply_diagonal(U, s, 1), VH, 1, preserve_array=True))
        if not orec.ok:
            V(f"reconstruct-raises-{orec.excname}", repr(orec.exc))
            return None
        try:
            rec = embed(orec.value, x.indices)
        except Exception as e:
            V("reconstruct-layout", str(e))
            return None
    else:
        rec = np.zeros_like(dx)
    err2 = float(np.sum(np.abs(dx - rec) ** 2))
    want = float(np.sum(disc**2))
    sc = float(np.sum(np.abs(dx) ** 2)) or 1.0  # relative to the data (inputs may be rescaled by 1e-100 .. 1e100)
    if abs(err2 - want) > 1e-8 * sc:
        V("error-not-discarded-weight", f"||x - U S V+||^2 = {err2} != discarded weight {want}")
        return None
    if (0 < nk < total) or (removed and nk) or nk == 0:
        ctx.nontrivial((tagsig, mode if cutoff > 0 else 0, round(float(np.log10(max(cutoff, 1e-300))), 1), max_bond, nk))
        ctx.sample({"x": describe(x), "cutoff": cutoff, "cutoff_mode": mode, "max_bond": max_bond, "kept_per_charge": {repr(c): len(v) for c, v in kept.items()}, "spectrum": {repr(c): np.round(v, 4).tolist() for c, v in spec.items()}}, limit=3)
    return nk, rec


def absorb_variants(ctx, x, cutoff, mode, max_bond, rec, wit):
    sr = ctx.sr
    for absorb in (-1, 0, 1, "left", "both", "right"):
        o = run_truncated(ctx, x, "function", cutoff=cutoff, cutoff_mode=mode, max_bond=max_bond, absorb=absorb)
        ctx.evaluated()
        ctx.count("absorb", str(absorb))
        w = dict(wit, cutoff=cutoff, cutoff_mode=mode, max_bond=max_bond, absorb=absorb)
        if not o.ok:
            ctx.violation(f"absorb-raises-{o.excname}", f"absorb={absorb!r}: {o.exc!r}", w)
            return
        U, s, VH = o.value
        if s is not None:
            ctx.violation("absorb-returns-s", f"absorb={absorb!r} returned singular values as well", w)
            return
        if not U.blocks:
            prod = np.zeros_like(rec)
        else:
            op = ctx.call(lambda: sr.tensordot(U, VH, 1, preserve_array=True))
            if not op.ok:
                ctx.violation(f"absorb-product-raises-{op.excname}", repr(op.exc), w)
                return
            prod = embed(op.value, x.indices)
        if not np.allclose(prod, rec, atol=1e-9 * (float(np.abs(embed(x)).max(initial=0)) or 1.0), rtol=0):
            ctx.violation("absorb-product", f"absorb={absorb!r}: U.V+ differs from U diag(s) V+ of absorb=None, max|diff| {cmp.maxdiff(prod, rec)}", w)
            return
        if audit(U) or audit(VH):
            ctx.violation("absorb-invalid-factor", f"absorb={absorb!r}: {(audit(U) + audit(VH))[:2]}", w)
            return


def case(ctx, rng, big=False):
    many = rng.random() < 0.35 and not big
    if big:
        # 260-520 singular values in all (2-3 sectors of 90-220): beyond any small-array regime
        # of sorting / selection routines
        sr = ctx.sr
        sym = rng.choice(["Z2", "U1", "Z4", "U1U1"])
        cs = rng.sample(gen.POOL[sym], rng.randint(2, 3) if len(gen.POOL[sym]) > 2 else 2)
        n_each = [rng.randint(130, 220) if len(cs) == 2 else rng.randint(90, 170) for _ in cs]
        r_ = sr.BlockIndex(dict(zip(cs, n_each)), dual=rng.random() < 0.5)
        c_ = sr.BlockIndex({c: n + rng.randint(0, 6) for c, n in zip(cs, n_each)}, dual=not r_.dual)
        dt = rng.choice(["float64", "float64", "complex128"])
        x = gen.make_array(sr, rng, sym, [r_, c_], charge=R.identity(sym), fermionic=rng.random() < 0.5, values=gen.Values(rng, "gauss", dt), sparsity=0.0, nphase=0, exotic=False)
        for s_, b in list(x.blocks.items()):
            # a spread-out spectrum (geometric decay over 3-8 decades), same random vectors
            b = np.asarray(b)
            u_, sv_, vh_ = np.linalg.svd(b.astype("complex128" if b.dtype.kind == "c" else "float64"), full_matrices=False)
            dec = rng.choice([3.0, 5.0, 8.0]) if b.dtype != np.float32 else 3.0
            sv_ = sv_[0] * 10.0 ** (-dec * np.sort(np.asarray([rng.random() for _ in sv_])))
            x.blocks[s_] = ((u_ * sv_) @ vh_).astype(b.dtype)
        feats = {"more-than-256-singular-values", "direct"}
        ctx.count("feature", "dtype:" + dt)
    else:
        x, feats = lingen.rand_matrix(ctx, rng, kind=rng.choice(["direct", "direct", "fused", "deficient"]) if not many else "direct", min_charges=2 if not many else 4, max_charges=3 if not many else 6, sym=rng.choice(["U1", "U1U1", "Z4", "Z2Z2"]) if many else None, sparsity=0.0 if many else None)
    if many:
        ctx.count("feature", "four-or-more-charges")
    if x is None or not x.blocks:
        return
    if not big and rng.random() < 0.06:
        # one ndarray OBJECT stored under several sectors (blocks={(0, 0): a, (1, 1): a}):
        # the factors of such sectors must still be independent arrays
        by_shape = {}
        for s_, b_ in x.blocks.items():
            by_shape.setdefault(np.asarray(b_).shape, []).append(s_)
        for shp_, secs_ in by_shape.items():
            if len(secs_) >= 2 and min(shp_) >= 1:
                for s_ in secs_[1:]:
                    x.blocks[s_] = x.blocks[secs_[0]]
                feats = set(feats) | {"one-ndarray-object-in-several-sectors"}
    if rng.random() < 0.15:
        # the rules are either scale covariant (absolute cutoffs are drawn from the spectrum)
        # or scale free (relative modes): rescale the data by many orders of magnitude
        f = rng.choice([1e-16, 1e-16, 1e-40, 1e-100, 1e-9, 1e9, 1e30, 1e100])
        for s_ in list(x.blocks):
            x.blocks[s_] = x.blocks[s_] * f
        feats = set(feats) | {"rescaled-data"}
    spec = spectrum(x)
    _band[0] = BAND
    ol = ctx.call(lambda: ctx.sr.linalg.svd(x))
    if ol.ok:
        ls = {c: np.asarray(v) for c, v in ol.value[1].blocks.items()}
        if set(ls) == set(spec) and all(ls[c].shape == spec[c].shape and np.allclose(ls[c], spec[c], rtol=1e-9, atol=1e-9 * float(max(v_[0] for v_ in spec.values()))) for c in spec):
            spec = ls
            _band[0] = BAND_TIGHT
            ctx.count("spectrum", "library-svd-values (tight band)")
        else:
            ctx.count("spectrum", "independent-numpy-values (wide band)")
    alls = np.sort(np.concatenate(list(spec.values())))
    N = len(alls)
    if N < 2:
        return
    wit = {"x": describe(x, True)}
    sig = struct_sig(x)
    for f in feats:
        ctx.count("feature", f)
    # ---- ladder per mode
    modes = rng.sample([1, 2, 3, 4, 5, 6], 2 if ctx.quick else 6)
    if big:
        modes = [1, 2, rng.choice([3, 4, 5, 6])]
    for mode in modes:
        p = 2 if mode in (3, 4) else 1
        if mode == 1:
            base = list(np.quantile(alls, [0.2, 0.5, 0.8])) + [alls[-1] * 1.0000001, alls[-1] * 1.5]
        elif mode == 2:
            base = list(np.quantile(alls, [0.2, 0.5, 0.8]) / alls[-1]) + [1.0000001, 1.5]
        else:
            cum = np.cumsum(alls**p)
            tot = cum[-1]
            qs = [float(cum[int(k)]) * 0.999 for k in sorted(set(rng.sample(range(N), min(3, N))))] + [tot * 0.999999, tot, tot * 1.5, tot * 1e3]
            base = [q / tot for q in qs] if mode in (4, 6) else qs
        ladder = sorted(set([1e-12] + [float(b) for b in base if b > 0]))
        max_bond = rng.choice([-1, -1, rng.randint(1, N + 2)])
        if big:
            max_bond = rng.randint(N // 5, N - 1)
        via = rng.choice(["function", "autoray"])
        hist = []
        rec_for_absorb = None
        for c in ladder:
            r = judge(ctx, x, spec, c, mode, max_bond, via, wit, sig)
            if r is None:
                return
            if isinstance(r, tuple):
                nk, rec = r
                hist.append((c, nk))
                if rec_for_absorb is None or rng.random() < 0.3:
                    rec_for_absorb = (c, rec)
            else:
                hist.append((c, None))
        # offline monotonicity over the ladder
        ctx.count("ladder", f"mode{mode}")
        last = None
        for c, nk in hist:
            if nk is None:
                continue
            if last is not None and nk > last[1]:
                ctx.violation("larger-cutoff-keeps-more", f"cutoff_mode={mode} max_bond={max_bond}: cutoff {last[0]!r} keeps {last[1]} values but larger cutoff {c!r} keeps {nk}", dict(wit, ladder=[(float(a), b) for a, b in hist], cutoff_mode=mode, max_bond=max_bond))
                return
            last = (c, nk)
        if rec_for_absorb is not None and rng.random() < 0.5:
            absorb_variants(ctx, x, rec_for_absorb[0], mode, max_bond, rec_for_absorb[1], wit)
    # ---- no cutoff
    for mb in rng.sample(list(range(1, N + 3)), min(3, N + 2)) + [-1]:
        r = judge(ctx, x, spec, rng.choice([-1.0, 0.0]), 4, mb, rng.choice(["function", "autoray"]), wit, sig)
        if r is None:
            return
        if isinstance(r, tuple) and rng.random() < 0.3:
            absorb_variants(ctx, x, -1.0, 4, mb, r[1], wit)
    # ---- the documented renorm option: not silently ignored (today it refuses)
    if rng.random() < 0.05:
        orn = run_truncated(ctx, x, "function", cutoff=0.1, cutoff_mode=4, max_bond=-1, absorb=None, renorm=1)
        ctx.evaluated()
        ctx.count("mode", "renorm")
        if orn.ok:
            # if it ever returns, the kept values must at least carry the full weight of the input
            s_r = orn.value[1]
            kept_w = sum(float(np.sum(np.asarray(v) ** 2)) for v in s_r.blocks.values())
            tot_w = float(np.sum(alls**2))
            if abs(kept_w - tot_w) > 1e-9 * tot_w:
                ctx.violation("renorm-ignored", f"svd_truncated(renorm=1) returned singular values of squared weight {kept_w}, input {tot_w}: the option was ignored", wit)
        elif not isinstance(orn.exc, NotImplementedError):
            ctx.violation(f"renorm-raises-{orn.excname}", repr(orn.exc), wit)


def run(ctx):
    # the small stream first: the large one may run into the wall-clock cap of the thorough tier
    for _, rng in ctx.cases("big-spectrum", ctx.budget(64, 1200)):
        ctx.run_case(case, ctx, rng, True)
    for _, rng in ctx.cases("matrices", ctx.budget(20000, 400000)):
        ctx.run_case(case, ctx, rng)
