"""C04 — a fermionic network's value does not depend on how it is contracted."""
import numpy as np

from symv import cmp, gen, network
from symv import refsym as R
from symv.dense import LayoutError, describe, labels_of
from symv.named import N, Raised, Surprise

META = {
    "level": "exploration",
    "level_text": "Offline checker over a recorded history of routes through one network: for each generated network of 2-4 fermionic tensors (chains, triangles, cycles with chords, dangling legs, conjugated and multi-label operands, distinct labels) the library contracts it along many random routes (contraction order, operand order, listing order of contracted pairs, pre-transposes, all-at-once vs tensordot+einsum, mode) and every route must give exactly the same canonical-order value and the same remaining labels; all routes are also compared with an independent GradedDense evaluation of the whole network, so a consistent-but-wrong sign convention is caught too. Later additions: bra-ket networks, pairs sharing 6-8 bonds, routes through the @ operator, tensors of >= 2**22 dense elements, labels from a range symmetric about zero, library conj of already-hashed indices. Round 9: user-defined symmetries.",
    "technique": "runtime monitoring: offline history checker (route independence) + reference-model anchor (graded tensor network evaluation)",
    "rule": (
        "one evaluation = one complete route through one network, compared with the graded-model value and with the other routes of the same network. "
        "Non-trivial = the network has >=2 odd-parity tensors and a non-zero value; distinct by (topology, parities, dualness, label order pattern, route count)."
    ),
    "anchors": ["fermionic_core.tensordot_fermionic", "fermionic_core.resolve_combined_oddpos", "fermionic_local_operators.FermionicOperator.__lt__", "fermionic_core.FermionicArray.einsum", "fermionic_core.FermionicArray.transpose"],
    "floors": {
        "quick": {"evaluations": 2500, "distinct_nontrivial": 150, "tables": {"networks": 300, "feature/odd>=2": 150, "feature/conjugated-tensor": 80, "feature/multi-label-operand": 40, "route/split-einsum": 150, "feature/bra-ket-label-pairs": 300, "feature/shared-legs>=6": 100, "feature/tensor-of-dense-size>=2**22": 4}},
        "thorough": {"evaluations": 150000, "distinct_nontrivial": 8000, "tables": {"networks": 10000, "feature/odd>=2": 5000}},
    },
    "wall": {"quick": 900, "thorough": 1700},
}


def strip_pairs(labels):
    """Ordered label list with every conjugate pair (same label, opposite dualness) removed."""
    cur = list(labels)
    while True:
        hit = None
        for i in range(len(cur)):
            for j in range(i + 1, len(cur)):
                if cur[i][0] == cur[j][0] and cur[i][1] != cur[j][1]:
                    hit = (i, j)
                    break
            if hit:
                break
        if not hit:
            return cur
        cur.pop(hit[1])
        cur.pop(hit[0])


def braket_network(ctx, rng, sym, label_kind):
    """Kets plus the conjugates of some (or all) of them: labels occur as conjugate pairs.
    Ket dangling legs are either contracted with the bra copy (same name) or left open on
    both (bra leg primed)."""
    nk = rng.choice([2, 2, 3])
    kets = network.build_network(ctx, rng, sym, nk, pbond=0.9, maxdang=1 if nk == 3 else 2, p_conj=0.0, label_kind=label_kind)
    dang = network.dangling(kets)
    closed = {nm for nm in dang if rng.random() < 0.6}
    which = [k for k in range(nk) if rng.random() < 0.8] or [0]
    out = list(kets)
    for k in which:
        t = kets[k]
        o = ctx.call(t.x.conj)
        if not o.ok:
            raise Raised("conj", o)
        out.append(N(o.value, [nm if nm in closed else nm + "*" for nm in t.names]))
    rng.shuffle(out)
    return out


def case(ctx, rng, braket=False, manylegs=False, hugedense=False):
    sr = ctx.sr
    sym = gen.pick_sym(rng)
    nt = rng.choice([2, 3, 3, 4])
    if hugedense:
        sym = rng.choice(["Z2", "U1"])
        nt = 2
    if manylegs:
        sym = rng.choice(["Z2", "Z2", "U1", "Z4", "Z2Z2"])
        nt = 2
    label_kind = rng.choice(["int", "int", "tuple", "str"])
    try:
        feats = set()
        if braket:
            tensors = braket_network(ctx, rng, sym, label_kind)
            nt = 0
            feats.add("bra-ket-label-pairs")
        elif hugedense:
            # one tensor of >= 2**22 dense elements (11-12 legs of total size 4) sharing 2-3 bonds
            # with a small one: listed orders, operand swap, split tensordot + trace
            cs_ = rng.sample(gen.POOL[sym], 2)
            nb_ = rng.randint(2, 3)
            tensors = network.build_network(ctx, rng, sym, 2, pbond=1.0, p_conj=0.0, label_kind=label_kind, multi=(nb_, nb_), dangs=[rng.choice([11, 12]) - nb_, rng.randint(0, 1)], mkindex=lambda: sr.BlockIndex({c: 2 for c in sorted(cs_)}, dual=rng.random() < 0.5), sparsity=0.0)
            feats.add("tensor-of-dense-size>=2**22")
        elif manylegs:
            # two tensors sharing 6..8 size-one-sector bonds: contracted at once, in any listed
            # order, or some by tensordot and the rest by einsum trace
            tensors = network.build_network(ctx, rng, sym, 2, pbond=1.0, maxdang=1, p_conj=0.25, label_kind=label_kind, maxd=1, maxc=2, multi=(6, 8), sparsity=rng.choice([0.0, 0.3, 0.6]))
            feats.add("shared-legs>=6")
        else:
            tensors = network.build_network(ctx, rng, sym, nt, pbond=0.85, maxdang=2 if nt < 4 else 1, p_conj=0.25, label_kind=label_kind)
        if any(any(d for _, d in labels_of(t.x)) for t in tensors):
            feats.add("conjugated-tensor")
        # sometimes replace two tensors by their contraction: an operand carrying several labels
        if nt >= 3 and rng.random() < 0.4:
            odd = [k for k, t in enumerate(tensors) if network.parity_of(t.x)]
            i, j = rng.sample(odd, 2) if len(odd) >= 2 and rng.random() < 0.8 else rng.sample(range(nt), 2)
            z = network.contract_subset(ctx, tensors[i], tensors[j], [nm for nm in tensors[i].names if nm in tensors[j].names], rng.choice(["fused", "blockwise"]))
            if len(labels_of(z.x)) >= 2:
                feats.add("multi-label-operand")
            tensors = [t for k, t in enumerate(tensors) if k not in (i, j)] + [z]
    except Raised as e:
        ctx.violation(f"{e.op}-raises-{e.outcome.excname}", str(e), {"symmetry": sym})
        return
    if any(not t.x.blocks for t in tensors):
        ctx.count("refusal", "degenerate-empty-operand")
        return
    pars = [network.parity_of(t.x) for t in tensors]
    refidx = network.ref_indices(tensors)
    exp, lab_exp, order = network.reference_value(tensors, pars, refidx)
    nodd = sum(pars)
    ctx.count("networks", f"nt={len(tensors)}")
    ctx.count("symmetry", sym)
    if nodd >= 2:
        ctx.count("feature", "odd>=2")
    for f in feats:
        ctx.count("feature", f)
    wit = {"tensors": [dict(describe(t.x, True), legs=t.names) for t in tensors]}
    nroutes = ctx.n(8, 16) if not hugedense else 3
    history = []
    for r in range(nroutes):
        rec = []
        try:
            z = network.random_route(ctx, rng, tensors, record=rec)
        except Raised as e:
            ctx.violation(f"{e.op}-raises-{e.outcome.excname}", f"route {rec}: {e}", dict(wit, route=rec))
            return
        except Surprise as e:
            ctx.violation(e.mech, str(e), dict(wit, route=rec))
            return
        ctx.evaluated()
        if any("split" in s for s in rec):
            ctx.count("route", "split-einsum")
        ctx.count("route", "total")
        try:
            val, lab, raw = network.canonical_value(z, refidx)
        except LayoutError as e:
            ctx.violation("route-layout", f"{e}", dict(wit, route=rec))
            return
        history.append((rec, val, lab, raw, sorted(z.names)))
    # ---- offline check over the history
    rec0, v0, l0, raw0, names0 = history[0]
    for rec, val, lab, raw, names in history:
        if names != order:
            ctx.violation("route-legs", f"remaining legs {names} != {order}", dict(wit, route=rec))
            return
        if lab != lab_exp:
            ctx.violation("route-labels-vs-model", f"canonical labels {lab} != model {lab_exp} (raw {raw})", dict(wit, route=rec))
            return
        if not np.array_equal(val, exp):
            sign_only = np.array_equal(np.abs(val), np.abs(exp))
            agree = np.array_equal(val, v0)
            mech = ("route-sign" if sign_only else "route-value") + ("-all-routes-agree" if agree and rec is not rec0 else "")
            ctx.violation(mech, f"route value differs from the graded-model value of the network (max|diff| {cmp.maxdiff(val, exp)}); routes mutually {'consistent' if agree else 'inconsistent'}", dict(wit, route=rec, other_route=rec0))
            return
        if raw != raw0:
            if strip_pairs(raw) == strip_pairs(raw0):
                # same labels up to conjugate pairs that one route annihilated and the other kept
                ctx.violation("conjugate-label-pair-annihilated-on-some-routes-only", f"labels remaining on the result differ between routes by un-annihilated conjugate pairs: {raw} vs {raw0} (values agree once the pairs are evaluated)", dict(wit, route=rec, other_route=rec0))
                return
            ctx.violation("route-labels-differ", f"labels remaining on the result differ between routes: {raw} vs {raw0}", dict(wit, route=rec, other_route=rec0))
            return
    if nodd >= 2 and np.any(exp != 0):
        ctx.nontrivial((sym, tuple(tuple(t.names) for t in tensors), tuple(pars), tuple(tuple(ix.dual for ix in t.x.indices) for t in tensors), tuple(tuple(labels_of(t.x)) for t in tensors)))
        ctx.sample({"symmetry": sym, "tensors": [dict(describe(t.x), legs=t.names) for t in tensors], "routes": [h[0] for h in history[:2]], "remaining_labels": [repr(l) for l in raw0]}, limit=2)


def run(ctx):
    for _, rng in ctx.cases("networks", ctx.budget(22000, 450000)):
        ctx.run_case(case, ctx, rng)
    for _, rng in ctx.cases("braket-networks", ctx.budget(8000, 150000)):
        ctx.run_case(case, ctx, rng, True)
    for _, rng in ctx.cases("huge-dense", ctx.budget(12, 120)):
        ctx.run_case(case, ctx, rng, False, False, True)
    for _, rng in ctx.cases("many-legs", ctx.budget(600, 12000)):
        ctx.run_case(case, ctx, rng, False, True)
