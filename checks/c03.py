"""C03 — fermionic operations follow graded (Grassmann) tensor semantics."""
import itertools

import numpy as np

from symv import cmp, gen
from symv import graded as G
from symv import refsym as R
from symv.dense import describe, embed, index_sig, is_array, labels_of, phases_of, struct_sig

META = {
    "level": "exploration",
    "level_text": "Each monitored fermionic transpose / tensordot (fused, blockwise, auto) / @ / trace / einsum call is compared element for element, exactly, with an independent dense Z2-graded tensor model (Koszul signs from per-element parity vectors, bra-ket evaluation rule, label factors). Thorough tier enumerates every Z2 structure with <=3 indices per operand (all charge subsets, dualness patterns, parities, permutations, contracted-axis choices and orders) and samples U1 structures; random stream covers 5 symmetries, sparsity, pending signs, labels. Exploration; exhaustive only inside the stated Z2 box. Later additions: operands carrying several labels incl. nested conjugate pairs, tuple / string labels, 5-8 contracted legs, thousands of sectors on both operands, left operands of >= 2**22 dense elements, option phase=False judged as the plain permutation. Round 9: user-defined symmetries, incl. one that grades the labels of U1U1 differently, in the same process as U1U1. Round 10: 12-26-leg arrays with 2-6 stored sectors (up to 26 odd charges in a sector), transposition judged sector by sector.",
    "technique": "runtime monitoring: reference-model oracle (independent dense graded-tensor calculation), bounded-exhaustive + random workloads",
    "rule": (
        "one evaluation = one fermionic library call compared with the GradedDense model. Streams: 'enum-transpose' / 'enum-contract' "
        "(bounded-exhaustive small structures: Z2 subsets of {0,1}, U1 subsets of {0,1,2}, size 1 for even / 2 for odd charges or swapped, "
        "all dualness patterns, both parities, all permutations / contracted-axis choices and orders; sampled in quick tier), "
        "'random' (5 symmetries, <=4 axes, sparsity, pending signs, labels). Non-trivial = an odd charge sits on a moved or contracted axis "
        "and the result is non-zero; distinct by (op, mode, structure signatures, axes/perm)."
    ),
    "anchors": [
        "fermionic_core.tensordot_fermionic",
        "fermionic_core.FermionicArray.transpose",
        "fermionic_core.FermionicArray.einsum",
        "fermionic_core.FermionicArray.trace",
        "fermionic_core.FermionicArray.__matmul__",
        "fermionic_core.resolve_combined_oddpos",
        "symmetries.calc_phase_permutation",
    ],
    "floors": {
        "quick": {"evaluations": 4000, "distinct_nontrivial": 800, "tables": {"feature/sector-with->=17-odd-charges": 1000, "op/tensordot": 1500, "op/transpose": 500, "op/matmul": 150, "op/trace": 100, "op/einsum": 150, "parity/odd-involved": 500, "feature/multi-label-operand": 300, "feature/nested-conjugate-labels": 40, "feature/sector-with->=6-odd-contracted": 150, "feature/sectors>2048": 20, "feature/both-operands>2048-sectors": 3, "feature/left-operand-dense-size>=2**22": 6}},
        "thorough": {"evaluations": 200000, "distinct_nontrivial": 40000, "tables": {"op/tensordot": 80000, "op/transpose": 20000}},
    },
    "exhaustive": {"quick": False, "thorough": False},
    "wall": {"quick": 900, "thorough": 1700},
}


def odd_on(sym, x, axes):
    return any(R.par(sym, c) for ax in axes for c in x.indices[ax].chargemap)


def check_transpose(ctx, x, perm, tag):
    import autoray as ar

    sym = R.symname(x)
    g = G.from_array(x)
    if perm is None:
        p_eff = tuple(range(x.ndim - 1, -1, -1))
    else:
        p_eff = tuple(perm)
    exp, _ = G.gtranspose(g.data, g.pars, p_eff)
    via = ("method", "function", "autoray")[hash((tag, p_eff)) % 3] if perm is not None else "method"
    if perm is not None and x.ndim:
        # the same permutation with some axes counted from the end (D25), as tuple / list / ndarray
        k_ = sum((i_ + 2) * p_ for i_, p_ in enumerate(p_eff)) + len(str(tag))
        if k_ % 3 == 0:
            perm = tuple((p_ - x.ndim) if ((k_ // 3) >> i_) & 1 else p_ for i_, p_ in enumerate(p_eff))
            if any(p_ < 0 for p_ in perm):
                ctx.count("feature", "transpose-axes-counted-from-the-end")
            if k_ % 2:
                perm = list(perm)
            elif k_ % 5 == 0:
                perm = np.array(perm, dtype=np.int64)
    if via == "method":
        o = ctx.call(lambda: x.transpose(perm))
    elif via == "function":
        o = ctx.call(lambda: ctx.sr.transpose(x, perm))
    else:
        o = ctx.call(lambda: ar.do("transpose", x, perm))
    ctx.evaluated()
    ctx.count("op", "transpose")
    ctx.count("stream", tag)
    wit = {"op": "transpose", "perm": repr(perm), "x": describe(x, True)}
    if not o.ok:
        ctx.violation(f"transpose-raises-{o.excname}", f"{o.exc!r}", wit)
        return
    ref = [x.indices[p] for p in p_eff]
    m = cmp.compare_array(o.value, ref, exp, True)
    if m:
        ctx.violation("transpose-sign" if "values" in m else "transpose-structure", f"perm={perm}: {m}", wit)
        return
    if labels_of(o.value) != labels_of(x) or o.value.charge != x.charge:
        ctx.violation("transpose-labels", f"labels/charge changed: {labels_of(o.value)} {o.value.charge!r}", wit)
    # the documented option phase=False: the same axes permutation WITHOUT the sign (a plain
    # relabelling of the stored data, pending signs carried along)
    if perm is not None and hash((tag, p_eff, "np")) % 5 == 0:
        from symv.audit import audit

        o2 = ctx.call(lambda: x.transpose(perm, phase=False))
        ctx.evaluated()
        ctx.count("op", "transpose-phase=False")
        if not o2.ok:
            ctx.violation(f"transpose-raises-{o2.excname}", f"phase=False: {o2.exc!r}", wit)
        else:
            m2 = cmp.compare_array(o2.value, ref, embed(x).transpose(p_eff), True)
            e2 = audit(o2.value)
            if m2 or e2:
                ctx.violation("transpose-nophase", f"transpose({perm}, phase=False) is not the plain permutation of the data: {m2 or e2[:2]}", wit)
    moved = [i for i in range(x.ndim) if p_eff[i] != i]
    if odd_on(sym, x, moved) and np.any(exp != 0):
        ctx.nontrivial(("T", struct_sig(x), p_eff))
        ctx.count("parity", "odd-involved")
        ctx.sample({"op": "transpose", "perm": list(p_eff), "x": describe(x)}, limit=2)


def check_contract(ctx, a, b, axa, axb, mode, tag, via="function"):
    import autoray as ar

    sr = ctx.sr
    sym = R.symname(a)
    # operands that are themselves results may have dropped different charges from the two
    # ends of a contracted leg: embed both in the union layout of each pair
    ra, rb = list(a.indices), list(b.indices)
    for i, j in zip(axa, axb):
        cm = dict(a.indices[i].chargemap)
        for c, d in b.indices[j].chargemap.items():
            assert cm.setdefault(c, d) == d
        ra[i] = sr.BlockIndex(cm, dual=a.indices[i].dual)
        rb[j] = sr.BlockIndex(cm, dual=b.indices[j].dual)
    ga, gb = G.from_array(a, ra), G.from_array(b, rb)
    exp, lab_exp, _, _, left, right = G.contract(ga, gb, axa, axb, a_parity_fallback=R.par(sym, a.charge))
    ref = [a.indices[i] for i in left] + [b.indices[i] for i in right]
    kw = {"axes": (list(axa), list(axb)), "preserve_array": True}
    if mode != "default":
        kw["mode"] = mode
    fn = sr.tensordot if via == "function" else (lambda x, y, **k: ar.do("tensordot", x, y, **k))
    o = ctx.call(fn, a, b, **kw)
    ctx.evaluated()
    ctx.count("op", "tensordot")
    ctx.count("mode", str(mode))
    ctx.count("stream", tag)
    ctx.count("symmetry", sym)
    wit = {"op": "tensordot", "axes": [list(axa), list(axb)], "mode": mode, "a": describe(a, True), "b": describe(b, True)}
    if not o.ok:
        ctx.violation(f"tensordot-raises-{o.excname}", f"{o.exc!r}", wit)
        return None
    res = o.value
    m = cmp.free_index_mismatch(res, ref) if is_array(res) else "not an array"
    if m:
        ctx.violation("tensordot-structure", m, wit)
        return None
    got, lab_got = G.canon_value(res, ref)
    if lab_got != lab_exp:
        ctx.violation("tensordot-labels", f"remaining labels {labels_of(res)} (canonical {lab_got}) != expected canonical {lab_exp}", wit)
        return None
    if not np.array_equal(got, exp):
        only_sign = np.array_equal(np.abs(got), np.abs(exp))
        ctx.violation("tensordot-sign" if only_sign else "tensordot-value", f"mode={mode}: differs from graded model, max|diff|={cmp.maxdiff(got, exp)}", wit)
        return None
    if res.charge != R.comb(sym, [a.charge, b.charge]):
        ctx.violation("tensordot-charge", f"{res.charge!r}", wit)
    oddinv = R.par(sym, a.charge) or R.par(sym, b.charge)
    if oddinv:
        ctx.count("parity", "odd-involved")
    if np.any(exp != 0) and (odd_on(sym, a, axa) or oddinv):
        ctx.nontrivial(("C", mode, struct_sig(a), struct_sig(b), tuple(axa), tuple(axb)))
        ctx.sample({"op": "tensordot", "axes": [list(axa), list(axb)], "mode": mode, "a": describe(a), "b": describe(b), "result_labels": [repr(l) for l in labels_of(res)]}, limit=3)
    return res


def case_random(ctx, rng):
    sr = ctx.sr
    sym = gen.pick_sym(rng)
    vals = gen.Values(rng, "int", rng.choice(["float64", "float64", "complex128"]))
    r = rng.random()
    if r < 0.25:
        x = gen.rand_array(sr, rng, sym, fermionic=True, maxnd=4, values=vals, maxd=2, many_legs_p=0.06)
        if x.ndim >= 6:
            ctx.count("feature", "transpose-of-6-or-more-legs")
        perm = None if rng.random() < 0.1 else tuple(rng.sample(range(x.ndim), x.ndim))
        check_transpose(ctx, x, perm, "random")
        return
    lk = rng.choice(["int", "int", "tuple", "str"])
    ctx.count("labels", lk)
    a, b, axa, axb = gen.contractible_pair(sr, rng, sym, True, maxnd=3 if rng.random() < 0.85 else 4, values=vals, maxd=2, p_ragged=0.1, p_hist=0.1, p_mixclass=0.08, label_kind=lk)
    if rng.random() < 0.25 and any(R.par(sym, c) for c in gen.POOL[sym]):
        # operands that already carry several labels (outer products with a one-element odd
        # tensor: the product is even / odd with two labels)
        def dress(x, lab, front):
            odd = [c for c in gen.POOL[sym] if R.par(sym, c)]
            c = rng.choice(odd)
            one = sr.BlockIndex({c: 1}, dual=rng.random() < 0.5)
            y = gen.make_array(sr, rng, sym, [one], charge=R.signed(sym, c, one.dual), fermionic=True, kind="static" if type(x).static_symmetry else "generic_str", values=vals, label=lab, sparsity=0.0, nphase=0)
            o_ = ctx.call(sr.tensordot, y, x, axes=0, preserve_array=True) if front else ctx.call(sr.tensordot, x, y, axes=0, preserve_array=True)
            return o_.value if o_.ok and o_.value.ndim == x.ndim + 1 else None

        which = rng.choice(["a", "b", "both"])
        if which in ("a", "both") and a.blocks:
            front = rng.random() < 0.5
            a2 = dress(a, gen.as_label(lk, 700001), front)
            if a2 is not None:
                a = a2
                if front:
                    axa = [i + 1 for i in axa]
                ctx.count("feature", "multi-label-operand")
        if which in ("b", "both") and b.blocks:
            front = rng.random() < 0.5
            b2 = dress(b, gen.as_label(lk, 700002), front)
            if b2 is not None:
                b = b2
                if front:
                    axb = [i + 1 for i in axb]
                ctx.count("feature", "multi-label-operand")
        if rng.random() < 0.4 and a.blocks and len(labels_of(a)) >= 1:
            # the second operand is the (transposed) conjugate of the first, dressed again: its
            # labels are the conjugates in reverse order, so the pairs to evaluate are nested
            a3 = dress(a, gen.as_label(lk, 700003), rng.random() < 0.5) if rng.random() < 0.6 else a
            if a3 is not None:
                a = a3
                perm = tuple(rng.sample(range(a.ndim), a.ndim))
                ob = ctx.call(lambda: a.conj().transpose(perm))
                if ob.ok:
                    b = ob.value
                    nc = rng.randint(0, a.ndim)
                    axb = rng.sample(range(a.ndim), nc)
                    axa = [perm[j] for j in axb]
                    ctx.count("feature", "nested-conjugate-labels" if len(labels_of(a)) >= 2 else "conjugate-labels")
    mode = rng.choice(["fused", "blockwise", "auto", "default"])
    res = check_contract(ctx, a, b, axa, axb, mode, "random", via=rng.choice(["function", "autoray"]))
    if res is not None and res.ndim == 0 and rng.random() < 0.5:
        # scalar form must agree with the preserved form
        o = ctx.call(sr.tensordot, a, b, axes=(list(axa), list(axb)), **({} if mode == "default" else {"mode": mode}))
        ctx.evaluated()
        ctx.count("op", "tensordot-scalar")
        ph = res.phases.get((), 1)
        want = res.blocks[()] * ph if () in res.blocks else 0.0
        s_lab, lab_left = G.canon_labels(labels_of(res))
        if not lab_left:
            # nothing but evaluated conjugate pairs is left of the labels: the number returned
            # must be the fully evaluated one (a pair left pending on the preserved form would
            # lose its sign here)
            want = want * s_lab
        if not o.ok or is_array(o.value) or not np.array_equal(np.asarray(o.value), np.asarray(want)):
            ctx.violation("tensordot-scalar-form", f"scalar form {o.value if o.ok else o.exc!r} != preserved form {want!r}", {"a": describe(a, True), "b": describe(b, True), "axes": [list(axa), list(axb)]})


def case_many_legs(ctx, rng):
    """5..8 contracted legs of size-one sectors: up to 8 odd charges meet in one sector, so
    the reversal / pairing signs are exercised beyond what <=4 legs can reach."""
    sr = ctx.sr
    sym = rng.choice(["Z2", "Z2", "U1", "Z4", "Z2Z2"])
    ncon = rng.randint(5, 8)
    fa, fb = rng.randint(0, 2), rng.randint(0, 2)
    vals = gen.Values(rng, "int", "float64")
    a, b, axa, axb = gen.contractible_pair(sr, rng, sym, True, na=ncon + fa, nb=ncon + fb, ncon=ncon, values=vals, maxd=1, maxc=2, sparsity=rng.choice([0.0, 0.3, 0.6]), nphase=rng.choice([0, 2]))
    ctx.count("feature", f"contracted-legs-{ncon}")
    nodd = max((sum(R.par(sym, s[i]) for i in axa) for s in a.blocks), default=0)
    if nodd >= 6:
        ctx.count("feature", "sector-with->=6-odd-contracted")
    check_contract(ctx, a, b, axa, axb, rng.choice(["fused", "blockwise", "auto", "default"]), "many-legs")


def case_many_sectors(ctx, rng):
    """Operands with thousands of stored sectors (4-5 legs of 7-9 size-one charges): beyond any
    sector-count threshold a shortcut might use."""
    sr = ctx.sr
    sym = rng.choice(["U1", "U1", "U1U1", "Z4"])
    nleg = 5 if sym != "Z4" else 7
    if sym == "U1":
        mk = lambda: sr.BlockIndex({c: 1 for c in range(-4, rng.randint(4, 5) + 1)}, dual=rng.random() < 0.5)
    elif sym == "U1U1":
        mk = lambda: sr.BlockIndex({(p, q): 1 for p in range(-1, 2) for q in range(-1, 2)}, dual=rng.random() < 0.5)
    else:
        mk = lambda: sr.BlockIndex({c: 1 for c in range(4)}, dual=rng.random() < 0.5)
    ia = [mk() for _ in range(nleg)]
    ncon = rng.randint(2, 3)
    axa = rng.sample(range(nleg), ncon)
    if rng.random() < 0.5:
        # both operands huge (the library applies some signs to the SMALLER operand)
        ib = [gen.conj_index(sr, ia[i]) for i in axa] + [mk() for _ in range(nleg - ncon - rng.randint(0, 1))]
    else:
        ib = [gen.conj_index(sr, ia[i]) for i in axa] + [gen.rand_index(sr, rng, sym, maxc=2, maxd=1) for _ in range(rng.randint(0, 1))]
    order = rng.sample(range(len(ib)), len(ib))
    ib2 = [ib[k] for k in order]
    axb = [order.index(k) for k in range(ncon)]
    vals = gen.Values(rng, "int", "float64")
    kind = "generic_str" if sym == "Z4" else "static"
    a = gen.make_array(sr, rng, sym, ia, fermionic=True, values=vals, kind=kind, sparsity=0.0, nphase=rng.choice([0, 1]), label=5, exotic=False)
    b = gen.make_array(sr, rng, sym, ib2, fermionic=True, values=vals, kind=kind, sparsity=0.0, nphase=0, label=9, exotic=False)
    ctx.count("feature", "sectors>2048" if max(len(a.blocks), len(b.blocks)) > 2048 else "sectors<=2048")
    if min(len(a.blocks), len(b.blocks)) > 2048:
        ctx.count("feature", "both-operands>2048-sectors")
    if rng.random() < 0.5:
        a, b, axa, axb = b, a, axb, axa
    check_contract(ctx, a, b, axa, axb, rng.choice(["fused", "blockwise", "auto", "default"]), "many-sectors")


def case_huge_dense(ctx, rng):
    """A left operand of >= 2**22 dense elements built from ordinary small blocks (11-12 legs of
    total size 4), contracted over 2-3 legs listed in arbitrary order with a small partner."""
    sr = ctx.sr
    sym = rng.choice(["Z2", "Z2", "U1"])
    nleg = rng.choice([11, 11, 12])
    cs = rng.sample(gen.POOL[sym], 2)
    mk = lambda: sr.BlockIndex({c: 2 for c in sorted(cs)}, dual=rng.random() < 0.5)
    ia = [mk() for _ in range(nleg)]
    ncon = rng.randint(2, 3)
    axa = rng.sample(range(nleg), ncon)
    ib = [gen.conj_index(sr, ia[i]) for i in axa] + [gen.rand_index(sr, rng, sym, maxc=2, maxd=1) for _ in range(rng.randint(0, 1))]
    order = rng.sample(range(len(ib)), len(ib))
    ib2 = [ib[k] for k in order]
    axb = [order.index(k) for k in range(ncon)]
    vals = gen.Values(rng, "int", "float64")
    a = gen.make_array(sr, rng, sym, ia, fermionic=True, values=vals, kind="static", sparsity=0.0, nphase=0, label=7, exotic=False)
    b = gen.make_array(sr, rng, sym, ib2, fermionic=True, values=vals, kind="static", sparsity=0.0, nphase=rng.choice([0, 1]), label=3, exotic=False)
    if not a.blocks or not b.blocks:
        return
    ctx.count("feature", "left-operand-dense-size>=2**22")
    check_contract(ctx, a, b, axa, axb, rng.choice(["fused", "blockwise", "auto", "default"]), "huge-dense")


def case_sparse_many_legs(ctx, rng):
    """Arrays with 12-26 legs and only a handful of stored sectors (the dense form would have
    2**12 .. 4**26 elements, so the oracle works sector by sector): transposing multiplies each
    stored block by the sign of the permutation restricted to its odd legs (inversions counted
    by brute force), moves it to the permuted sector and leaves labels and charge alone.
    Sectors hold up to 26 odd charges."""
    sr = ctx.sr
    sym = rng.choice(["Z2", "Z2", "Z4", "Z2Z2", "BoseFermi"])
    n = rng.randint(12, 26)
    pool = {"Z2": [0, 1], "Z4": [0, 1, 2, 3], "Z2Z2": [(0, 0), (0, 1), (1, 0), (1, 1)], "BoseFermi": [(0, 0), (1, 0), (-1, 0), (0, 1)]}[sym]
    idx = []
    for k in range(n):
        full = sym != "Z2" and (k == n - 1 or rng.random() < 0.3)
        cs = list(pool) if (full or sym == "Z2") else sorted(rng.sample(pool, 2), key=repr)
        idx.append(sr.BlockIndex({c: 1 for c in cs}, dual=rng.random() < 0.5))
    if sym == "BoseFermi":
        # the last leg must be able to close any sector: give it the needed charges below
        pass
    duals = [ix.dual for ix in idx]
    want_odd = rng.random() < 0.8
    secs = {}
    charge = None
    tries = 0
    while len(secs) < rng.randint(2, 6) and tries < 200:
        tries += 1
        head = [rng.choice([c for c in ix.chargemap if (R.par(sym, c) or not want_odd or rng.random() < 0.15)] or list(ix.chargemap)) for ix in idx[:-1]]
        part = R.sector_charge(sym, head, duals[:-1])
        if charge is None:
            last = rng.choice(list(idx[-1].chargemap))
            charge = R.sector_charge(sym, head + [last], duals)
        else:
            need = R.comb(sym, [charge, R.neg(sym, part)])
            last = R.signed(sym, need, duals[-1])
            if last not in idx[-1].chargemap:
                if sym != "BoseFermi":
                    continue
                idx[-1] = sr.BlockIndex({**dict(idx[-1].chargemap), last: 1}, dual=duals[-1])
        secs[tuple(head + [last])] = None
    if not secs:
        return
    vals = gen.Values(rng, "int", rng.choice(["float64", "complex128"]))
    blocks = {s_: vals((1,) * n) for s_ in secs}
    cls, extra, kind = gen.pick_class(sr, rng, sym, True)
    kw = dict(indices=tuple(idx), charge=charge, blocks=blocks, **extra)
    if R.par(sym, charge):
        kw["oddpos"] = 5
    x = cls(**kw)
    gen.add_phases(rng, x, rng.choice([0, 1, 2]))
    px = phases_of(x)
    kind_ = rng.choice(["random", "random", "swap", "cycle", "reverse"])
    if kind_ == "random":
        perm = rng.sample(range(n), n)
    elif kind_ == "swap":
        perm = list(range(n))
        i_, j_ = rng.sample(range(n), 2)
        perm[i_], perm[j_] = perm[j_], perm[i_]
    elif kind_ == "cycle":
        k_ = rng.randint(1, n - 1)
        perm = list(range(k_, n)) + list(range(k_))
    else:
        perm = list(range(n - 1, -1, -1))
    perm = tuple(perm)
    o = ctx.call(lambda: x.transpose(perm))
    ctx.evaluated()
    ctx.count("op", "transpose")
    ctx.count("stream", "sparse-many-legs")
    maxodd = max(sum(R.par(sym, c) for c in s_) for s_ in secs)
    wit = {"op": "transpose", "perm": list(perm), "legs": n, "symmetry": sym, "sectors": [repr(s_) for s_ in secs], "duals": duals, "max_odd_charges_in_a_sector": maxodd}
    if not o.ok:
        ctx.violation(f"transpose-raises-{o.excname}", f"{o.exc!r}", wit)
        return
    y = o.value
    py = phases_of(y)
    if labels_of(y) != labels_of(x) or y.charge != x.charge or [index_sig(i) for i in y.indices] != [index_sig(idx[p]) for p in perm]:
        ctx.violation("transpose-structure", f"perm={perm}: indices / labels / charge of the result are wrong", wit)
        return
    for s_, b in blocks.items():
        odd = [R.par(sym, s_[p]) for p in perm]
        inv = sum(1 for i in range(n) for j in range(i + 1, n) if odd[i] and odd[j] and perm[i] > perm[j])
        s2 = tuple(s_[p] for p in perm)
        want = np.asarray(b).reshape(-1)[0] * px.get(s_, 1) * (-1 if inv % 2 else 1)
        if s2 not in y.blocks:
            ctx.violation("transpose-structure", f"perm={perm}: sector {s2} missing from the result", wit)
            return
        got = np.asarray(y.blocks[s2]).reshape(-1)[0] * py.get(s2, 1)
        if got != want:
            ctx.violation("transpose-sign", f"perm={perm}: block of sector {s_} ({sum(R.par(sym, c) for c in s_)} odd charges) comes out as {got!r}, graded transposition gives {want!r}", wit)
            return
    if len(y.blocks) != len(blocks):
        ctx.violation("transpose-structure", f"perm={perm}: {len(y.blocks)} blocks in the result, {len(blocks)} in the operand", wit)
        return
    ctx.count("feature", "sparse-many-legs")
    if maxodd >= 17:
        ctx.count("feature", "sector-with->=17-odd-charges")
    ctx.nontrivial(("TS", sym, n, perm[:6], maxodd))


def case_matmul(ctx, rng):
    sr = ctx.sr
    sym = gen.pick_sym(rng)
    vals = gen.Values(rng, "int")
    shp = rng.choice([(1, 1), (1, 2), (2, 1), (2, 2)])
    k = gen.rand_index(sr, rng, sym)
    _, _, kind = gen.pick_class(sr, rng, sym, True)
    la, lb = rng.sample(range(1, 100), 2)
    A = gen.make_array(sr, rng, sym, ([gen.rand_index(sr, rng, sym)] if shp[0] == 2 else []) + [k], fermionic=True, values=vals, kind=kind, label=la)
    B = gen.make_array(sr, rng, sym, [gen.conj_index(sr, k)] + ([gen.rand_index(sr, rng, sym)] if shp[1] == 2 else []), fermionic=True, values=vals, kind=kind, label=lb)
    ga, gb = G.from_array(A), G.from_array(B)
    exp, lab_exp, _, _, left, right = G.contract(ga, gb, [A.ndim - 1], [0], a_parity_fallback=R.par(sym, A.charge))
    o = ctx.call(lambda: A @ B)
    ctx.evaluated()
    ctx.count("op", "matmul")
    wit = {"op": "matmul", "a": describe(A, True), "b": describe(B, True)}
    if not o.ok:
        ctx.violation(f"matmul-raises-{o.excname}", f"{o.exc!r}", wit)
        return
    ref = [A.indices[i] for i in left] + [B.indices[i] for i in right]
    if not ref:
        # labels are lost on a scalar: compare with the library's own scalar tensordot, which the
        # 'random' stream ties to the preserved (label-carrying) form and that to the model
        o2 = ctx.call(sr.tensordot, A, B, axes=([A.ndim - 1], [0]))
        if is_array(o.value) or not o2.ok or not np.array_equal(np.asarray(o.value), np.asarray(o2.value)):
            ctx.violation("matmul-scalar", f"{o.value!r} != tensordot scalar {o2.value if o2.ok else o2.exc!r}", wit)
        if len(lab_exp) == 0 and not np.array_equal(np.asarray(o.value), exp):
            ctx.violation("matmul-scalar-value", f"{o.value!r} != graded model {exp!r}", wit)
        ctx.nontrivial(("mm-s", struct_sig(A), struct_sig(B)))
        return
    if not is_array(o.value) or cmp.free_index_mismatch(o.value, ref):
        ctx.violation("matmul-structure", f"{cmp.free_index_mismatch(o.value, ref) if is_array(o.value) else type(o.value)}", wit)
        return
    got, lab_got = G.canon_value(o.value, ref)
    if lab_got != lab_exp or not np.array_equal(got, exp):
        ctx.violation("matmul-sign", f"labels {lab_got} vs {lab_exp}; max|diff| {cmp.maxdiff(got, exp)}", wit)
        return
    if np.any(exp != 0):
        ctx.nontrivial(("mm", struct_sig(A), struct_sig(B)))


def case_trace(ctx, rng):
    import autoray as ar

    sr = ctx.sr
    sym = gen.pick_sym(rng)
    vals = gen.Values(rng, "int")
    ix = gen.rand_index(sr, rng, sym)
    x = gen.make_array(sr, rng, sym, [ix, gen.conj_index(sr, ix)], charge=R.identity(sym), fermionic=True, values=vals)
    g = G.from_array(x)
    exp, *_ = G.trace_pairs(g.data, g.pars, g.duals, [(0, 1)])
    via = rng.choice(["method", "function", "autoray"])
    fn = {"method": lambda: x.trace(), "function": lambda: sr.trace(x), "autoray": lambda: ar.do("trace", x)}[via]
    o = ctx.call(fn)
    ctx.evaluated()
    ctx.count("op", "trace")
    wit = {"op": "trace", "x": describe(x, True)}
    if not o.ok:
        ctx.violation(f"trace-raises-{o.excname}", f"{o.exc!r}", wit)
    elif not np.array_equal(np.asarray(o.value), exp):
        ctx.violation("trace-sign", f"{o.value!r} != graded trace {exp!r}", wit)
    elif exp != 0 and odd_on(sym, x, [0]):
        ctx.nontrivial(("tr", struct_sig(x)))


def case_einsum(ctx, rng):
    sr = ctx.sr
    sym = gen.pick_sym(rng)
    vals = gen.Values(rng, "int")
    npairs = rng.randint(0, 2)
    nfree = rng.randint(0, 2)
    letters, idx = [], []
    for p in range(npairs):
        ix = gen.rand_index(sr, rng, sym, maxd=2)
        letters += [chr(97 + p)] * 2
        idx += [ix, gen.conj_index(sr, ix)]
    for f in range(nfree):
        letters.append(chr(110 + f))
        idx.append(gen.rand_index(sr, rng, sym, maxd=2))
    if not letters:
        return
    order = rng.sample(range(len(letters)), len(letters))
    lhs = "".join(letters[o] for o in order)
    ids = [idx[o] for o in order]
    free = [l for l in lhs if lhs.count(l) == 1]
    rng.shuffle(free)
    rhs = "".join(free)
    sec = [rng.choice(list(ix.chargemap)) for l, ix in zip(lhs, ids) if lhs.count(l) == 1]
    duals = [ix.dual for l, ix in zip(lhs, ids) if lhs.count(l) == 1]
    x = gen.make_array(sr, rng, sym, ids, charge=R.sector_charge(sym, sec, duals), fermionic=True, values=vals)
    eq = f"{lhs}->{rhs}"
    g = G.from_array(x)
    pairs = [tuple(i for i, l in enumerate(lhs) if l == c) for c in sorted(set(lhs)) if lhs.count(c) == 2]
    E, ep, ed, axes = G.trace_pairs(g.data, g.pars, g.duals, pairs)
    perm = tuple(axes.index(lhs.index(c)) for c in rhs)
    if perm:
        E, ep = G.gtranspose(E, ep, perm)
    o = ctx.call(lambda: x.einsum(eq, preserve_array=True))
    ctx.evaluated()
    ctx.count("op", "einsum")
    wit = {"op": "einsum", "eq": eq, "x": describe(x, True)}
    if not o.ok:
        ctx.violation(f"einsum-raises-{o.excname}", f"{o.exc!r}", wit)
        return
    ref = [ids[lhs.index(c)] for c in rhs]
    m = cmp.compare_array(o.value, ref, E, True)
    if m:
        ctx.violation("einsum-sign" if "values" in m else "einsum-structure", f"{eq}: {m}", wit)
        return
    if labels_of(o.value) != labels_of(x):
        ctx.violation("einsum-labels", f"{labels_of(o.value)} != {labels_of(x)}", wit)
    if np.any(E != 0) and odd_on(sym, x, range(x.ndim)):
        ctx.nontrivial(("es", eq, struct_sig(x)))


# ---------------------------------------------------------------------- bounded-exhaustive
ENUM_POOL = {"Z2": [0, 1], "U1": [0, 1, 2]}


def _subsets(pool):
    out = []
    for r in range(1, len(pool) + 1):
        out += [c for c in itertools.combinations(pool, r)]
    return out


def _mk_index(sr, cs, dual, swap):
    return sr.BlockIndex({c: (2 if (c % 2) != swap else 1) for c in cs}, dual=dual)


def enum_transpose_space(sym):
    subs = _subsets(ENUM_POOL[sym])
    for nd in (1, 2, 3):
        for css in itertools.product(subs, repeat=nd):
            for duals in itertools.product([False, True], repeat=nd):
                for par in (0, 1):
                    for perm in itertools.permutations(range(nd)):
                        yield (nd, css, duals, par, perm)


def _charge_with_parity(sym, indices, par):
    secs = list(itertools.product(*[list(ix.chargemap) for ix in indices]))
    for sec in secs:
        ch = R.sector_charge(sym, sec, [ix.dual for ix in indices])
        if R.par(sym, ch) == par:
            return ch
    return None


def run_enum_transpose(ctx, sym, case, k):
    sr = ctx.sr
    nd, css, duals, par, perm = case
    swap = k % 2
    idx = [_mk_index(sr, cs, d, swap) for cs, d in zip(css, duals)]
    ch = _charge_with_parity(sym, idx, par)
    if ch is None:
        ctx.count("enum", "no-sector-of-parity")
        return
    import random

    rng = random.Random(f"{ctx.seed}:et:{sym}:{k}")
    x = gen.make_array(sr, rng, sym, idx, charge=ch, fermionic=True, kind="static", sparsity=0.0, nphase=k % 3, label=5)
    check_transpose(ctx, x, perm, f"enum-{sym}")


def enum_contract_space(sym, max_a, max_b):
    subs = _subsets(ENUM_POOL[sym])
    for na in range(0, max_a + 1):
        for nb in range(0, max_b + 1):
            for ncon in range(0, min(na, nb) + 1):
                for axa in itertools.permutations(range(na), ncon):
                    for axb in itertools.permutations(range(nb), ncon):
                        nfree_b = nb - ncon
                        for css_a in itertools.product(subs, repeat=na):
                            for css_bf in itertools.product(subs, repeat=nfree_b):
                                for duals in itertools.product([False, True], repeat=na + nfree_b):
                                    for pars in ((0, 0), (0, 1), (1, 0), (1, 1)):
                                        yield (na, nb, axa, axb, css_a, css_bf, duals, pars)


def run_enum_contract(ctx, sym, case, k):
    sr = ctx.sr
    na, nb, axa, axb, css_a, css_bf, duals, pars = case
    swap = k % 2
    ia = [_mk_index(sr, cs, d, swap) for cs, d in zip(css_a, duals[:na])]
    ib = [None] * nb
    for x_, y_ in zip(axa, axb):
        ib[y_] = gen.conj_index(sr, ia[x_])
    fr = iter(zip(css_bf, duals[na:]))
    ib = [v if v is not None else _mk_index(sr, *next(fr), swap) for v in ib]
    ca = _charge_with_parity(sym, ia, pars[0])
    cb = _charge_with_parity(sym, ib, pars[1])
    if ca is None or cb is None:
        ctx.count("enum", "no-sector-of-parity")
        return
    import random

    rng = random.Random(f"{ctx.seed}:ec:{sym}:{k}")
    vals = gen.Values(rng, "int")
    a = gen.make_array(sr, rng, sym, ia, charge=ca, fermionic=True, kind="static", sparsity=0.0, nphase=k % 2, label=3, values=vals)
    b = gen.make_array(sr, rng, sym, ib, charge=cb, fermionic=True, kind="static", sparsity=0.0, nphase=(k // 2) % 2, label=8, values=vals)
    for mode in ("fused", "blockwise"):
        check_contract(ctx, a, b, list(axa), list(axb), mode, f"enum-{sym}")


def _enum_stream(ctx, name, space, runner, sym, quick_n, thorough_frac=1.0):
    import random

    if ctx.quick:
        # uniform sample without materialising: reservoir over the generator
        pick = random.Random(f"{ctx.seed}:{name}")
        res = []
        for k, case in enumerate(space):
            if len(res) < quick_n:
                res.append((k, case))
            else:
                j = pick.randint(0, k)
                if j < quick_n:
                    res[j] = (k, case)
        ctx.notes[f"{name}_space"] = (k + 1) if ctx.shard == 0 else 0
        todo = sorted(res)
    else:
        todo = None
    it = todo if todo is not None else enumerate(space)
    n = 0
    pick2 = random.Random(f"{ctx.seed}:{name}:frac")
    for k, case in it:
        if todo is None and thorough_frac < 1.0 and pick2.random() >= thorough_frac:
            continue
        n += 1
        if n % ctx.nshards != ctx.shard:
            continue
        if not ctx.want(name, k):
            continue
        if not ctx.time_left():
            ctx.count("budget", f"{name}:stopped_by_wall_clock")
            ctx.notes[f"{name}_stopped_at"] = k
            return False
        ctx.run_case(runner, ctx, sym, case, k)
    if todo is None and thorough_frac >= 1.0:
        ctx.count("enum_complete", name)
    return True


def run(ctx):
    for _, rng in ctx.cases("random", ctx.budget(180000, 3500000)):
        ctx.run_case(case_random, ctx, rng)
    for _, rng in ctx.cases("many-legs", ctx.budget(2500, 50000)):
        ctx.run_case(case_many_legs, ctx, rng)
    for _, rng in ctx.cases("sparse-many-legs", ctx.budget(6000, 120000)):
        ctx.run_case(case_sparse_many_legs, ctx, rng)
    for _, rng in ctx.cases("many-sectors", ctx.budget(80, 800)):
        ctx.run_case(case_many_sectors, ctx, rng)
    for _, rng in ctx.cases("huge-dense", ctx.budget(12, 120)):
        ctx.run_case(case_huge_dense, ctx, rng)
    for _, rng in ctx.cases("matmul", ctx.budget(20000, 300000)):
        ctx.run_case(case_matmul, ctx, rng)
    for _, rng in ctx.cases("trace", ctx.budget(15000, 200000)):
        ctx.run_case(case_trace, ctx, rng)
    for _, rng in ctx.cases("einsum", ctx.budget(20000, 300000)):
        ctx.run_case(case_einsum, ctx, rng)
    _enum_stream(ctx, "enum-transpose-Z2", enum_transpose_space("Z2"), run_enum_transpose, "Z2", 3000)
    _enum_stream(ctx, "enum-transpose-U1", enum_transpose_space("U1"), run_enum_transpose, "U1", 6000, 1.0)
    _enum_stream(ctx, "enum-contract-Z2", enum_contract_space("Z2", 2, 3), run_enum_contract, "Z2", 20000)
    _enum_stream(ctx, "enum-contract-U1", enum_contract_space("U1", 2, 2), run_enum_contract, "U1", 8000, 0.5)
