"""C02 — abelian contraction equals dense contraction."""
import numpy as np

from symv import cmp, gen
from symv import refsym as R
from symv.dense import describe, embed, index_sig_nosub, is_array, struct_sig

META = {
    "level": "exploration",
    "level_text": "Every monitored tensordot / @ / trace / einsum call on generated abelian operands is compared element for element (exactly on integer-valued data) with numpy on independently densified operands, embedded by charge sector; result charge, directions and block sizes are checked too. Seeded random exploration over all 5 symmetries, 0..4 axes, all modes and call forms; no exhaustiveness claimed. Later additions: operands whose contracted legs list different charges (union layout), operands with identity histories, mixed static/generic classes, one index object on several legs, the same object as both operands, axes as iterators / numpy arrays, rank-0 and scalar operands. Round 9: user-defined symmetries; pairs whose output blocks receive 9-40 partial products, in four element types and every mode.",
    "technique": "runtime monitoring: differential oracle (numpy tensordot/trace/einsum on independently densified operands)",
    "rule": (
        "one evaluation = one library contraction call (tensordot via symmray.tensordot or autoray.do, axes as int / pair of lists with negative entries, "
        "mode in auto/fused/blockwise/None; x@y; trace; einsum) compared with numpy on the harness-densified operands. Non-trivial = "
        ">=1 contracted axis, non-zero dense result and >=1 missing block on an operand, or a scalar result; distinct by "
        "(op, form, mode, structure signature of both operands, axes)."
    ),
    "anchors": [
        "abelian_core.tensordot_abelian",
        "abelian_core._tensordot_blockwise",
        "abelian_core._tensordot_via_fused",
        "abelian_core.drop_misaligned_sectors",
        "abelian_core.AbelianArray.__matmul__",
        "abelian_core.AbelianArray.trace",
        "abelian_core.AbelianArray.einsum",
    ],
    "floors": {
        "quick": {"evaluations": 3000, "distinct_nontrivial": 600, "tables": {"op/tensordot": 1500, "op/matmul": 200, "op/trace": 100, "op/einsum": 200, "mode/fused": 300, "mode/blockwise": 300, "noalign": 10, "op/self-contraction": 3000, "feature/partial-product-count-not-a-power-of-two": 900}},
        "thorough": {"evaluations": 150000, "distinct_nontrivial": 30000, "tables": {"op/tensordot": 80000, "op/matmul": 10000, "op/trace": 5000, "op/einsum": 10000, "noalign": 500}},
    },
    "wall": {"quick": 900, "thorough": 1500},
}

MODES = ("auto", "fused", "blockwise", None)


def dtype_for(rng):
    if rng.random() < 0.05:
        return "int64"  # integer-typed blocks: exact arithmetic in the library and in numpy
    return rng.choice(["float64", "float64", "complex128", "float32", "complex64"])


def case_tensordot(ctx, rng, many_terms=False):
    import autoray as ar

    sr = ctx.sr
    sym = gen.pick_sym(rng)
    mode_vals = rng.choice(["int", "int", "gauss"])
    dt = dtype_for(rng) if mode_vals == "int" else rng.choice(["float64", "complex128"])
    vals = gen.Values(rng, mode_vals, dt)
    maxnd = 4 if rng.random() < 0.15 else 3
    if many_terms:
        # 2-3 contracted legs with 5-13 charges each: one output block receives 9..40 partial
        # products (every element type, every mode)
        sym = rng.choice(["U1", "U1", "U1", "U1", "Z4", "U1U1", "Z3", "Z3"])
        dt = rng.choice(["float32", "complex64", "float64", "complex128", "float32"])
        mode_vals = "int"
        vals = gen.Values(rng, "int", dt)
        ncon = rng.choice([2, 2, 3])
        if sym == "U1":
            w = rng.randint(11, 17) if ncon == 2 else rng.randint(5, 7)
            pools = [list(range(lo, lo + w)) for lo in (rng.randint(-6, 0) for _ in range(ncon))]
        elif sym == "U1U1":
            ncon = 3
            pools = [[(p, q) for p in range(-1, 2) for q in range(-1, 2)] for _ in range(ncon)]
        else:
            ncon = 3
            pools = [list(gen.POOL[sym]) for _ in range(ncon)]
        ks = [sr.BlockIndex({c: 1 for c in pl}, dual=rng.random() < 0.5) for pl in pools]
        la = [gen.rand_index(sr, rng, sym, maxc=2, maxd=2) for _ in range(rng.randint(0, 1))]
        rb = [gen.rand_index(sr, rng, sym, maxc=2, maxd=2) for _ in range(rng.randint(0, 1))]
        a = gen.make_array(sr, rng, sym, la + ks, values=vals, sparsity=rng.choice([0.0, 0.0, 0.15]), exotic=False)
        if not a.blocks:
            return
        bidx = [gen.conj_index(sr, k_) for k_ in ks] + rb
        sa_ = rng.choice(sorted(a.blocks, key=repr))
        qb = R.sector_charge(sym, [sa_[len(la) + i] for i in range(ncon)] + [rng.choice(sorted(ix.chargemap, key=repr)) for ix in rb], [ix.dual for ix in bidx])
        b = gen.make_array(sr, rng, sym, bidx, charge=qb, values=vals, sparsity=rng.choice([0.0, 0.0, 0.15]), exotic=False)
        axa = list(range(len(la), len(la) + ncon))
        axb = list(range(ncon))
        if rng.random() < 0.5:
            pa = list(range(a.ndim))
            rng.shuffle(pa)
            a = a.transpose(tuple(pa))
            axa = [pa.index(i) for i in axa]
        ctx.count("feature", "many-terms-pair")
    else:
        a, b, axa, axb = gen.contractible_pair(sr, rng, sym, False, maxnd=maxnd, values=vals, maxd=3 if maxnd == 3 else 2, p_ragged=0.12, p_hist=0.1, p_mixclass=0.08)
    if rng.random() < 0.04:
        # an operand that stores no block at all (the zero result of an earlier contraction
        # fed into the next one): the result is zero with the combined charge
        if rng.random() < 0.5:
            a = a.copy()
            a.blocks.clear()
        else:
            b = b.copy()
            b.blocks.clear()
        if rng.random() < 0.2:
            a, b = a.copy(), b.copy()
            a.blocks.clear()
            b.blocks.clear()
        ctx.count("feature", "block-less-operand")
        if R.comb(sym, [a.charge, b.charge]) not in (a.charge, b.charge):
            ctx.count("feature", "block-less-operand-and-both-charges-non-trivial")
    exact = mode_vals == "int"
    ra_, rb_ = gen.union_refs(sr, a, b, axa, axb)
    if any(dict(a.indices[i].chargemap) != dict(b.indices[j].chargemap) for i, j in zip(axa, axb)):
        ctx.count("feature", "contracted-legs-with-different-charge-lists")
    da, db = embed(a, ra_), embed(b, rb_)
    exp = np.tensordot(da, db, axes=(axa, axb))
    left = [i for i in range(a.ndim) if i not in axa]
    right = [i for i in range(b.ndim) if i not in axb]
    ref = [a.indices[i] for i in left] + [b.indices[i] for i in right]
    scale = float(np.linalg.norm(da) * np.linalg.norm(db)) if not exact else 1.0
    rtol = 1e-10 if np.dtype(dt).itemsize >= 8 and dt != "complex64" else 1e-4
    # axes forms
    forms = []
    neg_a = [x - a.ndim if rng.random() < 0.4 else x for x in axa]
    neg_b = [x - b.ndim if rng.random() < 0.4 else x for x in axb]
    forms.append(("lists", (neg_a, neg_b)))
    forms.append(("tuples", (tuple(axa), tuple(axb))))
    k = len(axa)
    if list(axa) == list(range(a.ndim - k, a.ndim)) and list(axb) == list(range(k)):
        forms.append(("int", k))
    # one-shot iterables (generators, map objects, reversed lists) and numpy arrays
    forms.append(("generators", ((i for i in list(axa)), (i for i in list(axb)))))
    forms.append(("map-objects", (map(int, list(axa)), map(int, list(axb)))))
    forms.append(("reversed-iterators", (reversed(list(axa)[::-1]), reversed(list(axb)[::-1]))))
    forms.append(("ndarrays", (np.array(axa, dtype=np.int64), np.array(axb, dtype=np.int64))))
    fname, axes = rng.choice(forms)
    mode = rng.choice(MODES)
    via = rng.choice(["function", "autoray"])
    preserve = rng.random() < 0.5
    kw = {"axes": axes, "preserve_array": preserve}
    if mode != "auto" or rng.random() < 0.5:
        kw["mode"] = mode
    fn = sr.tensordot if via == "function" else (lambda x, y, **k: ar.do("tensordot", x, y, **k))
    o = ctx.call(fn, a, b, **kw)
    ctx.evaluated()
    ctx.count("op", "tensordot")
    ctx.count("mode", str(mode))
    ctx.count("form", f"{via}:{fname}")
    ctx.count("symmetry", sym)
    ctx.count("dtype", dt)
    ctx.count("ncon", str(k))
    wit = {"op": "tensordot", "via": via, "axes": repr(axes), "mode": mode, "preserve_array": preserve, "a": describe(a, True), "b": describe(b, True)}
    if not o.ok:
        ctx.violation(f"tensordot-raises-{o.excname}", f"tensordot raised {o.exc!r} on valid operands", wit)
        return
    res = o.value
    nz = bool(np.any(exp != 0))
    if not nz:
        ctx.count("noalign", "zero-result")
    if many_terms:
        # how many aligned block pairs feed the fullest output block
        from collections import Counter

        cnt = Counter()
        keyb = {}
        for sb in b.blocks:
            keyb.setdefault(tuple(sb[j] for j in axb), []).append(sb)
        for sa in a.blocks:
            for sb in keyb.get(tuple(sa[i] for i in axa), ()):
                cnt[(tuple(sa[i] for i in left), tuple(sb[j] for j in right))] += 1
        top = max(cnt.values(), default=0)
        ctx.count("top", f"{sym}:{len(axa)}:{min(top, 20)}")
        if top >= 9:
            ctx.count("feature", "output-block-with->=9-partial-products")
            if top & (top - 1):
                ctx.count("feature", "partial-product-count-not-a-power-of-two")
            ctx.count("terms", f"{dt}:{mode}")
    if len(ref) == 0 and not preserve:
        if is_array(res):
            ctx.violation("scalar-not-returned", "full contraction without preserve_array returned an array", wit)
            return
        if not cmp.close(res, exp, exact, scale, rtol):
            ctx.violation("tensordot-scalar-value", f"scalar {res!r} != dense {exp!r}", wit)
        ctx.count("result", "scalar")
        ctx.nontrivial(("td-scalar", via, mode, struct_sig(a), struct_sig(b), tuple(axa), tuple(axb)))
        return
    m = cmp.compare_array(res, ref, exp, exact, scale, rtol)
    if m:
        ctx.violation(f"tensordot-{'structure' if 'index' in m or 'layout' in m else 'value'}", f"mode={mode}: {m}", wit)
        return
    want = R.comb(sym, [a.charge, b.charge])
    if res.charge != want:
        ctx.violation("tensordot-charge", f"result charge {res.charge!r} != combination {want!r}", wit)
    if type(res) is not type(a):
        ctx.violation("tensordot-class", f"result class {type(res).__name__} != {type(a).__name__}", wit)
    if k >= 1 and nz and (cmp.has_missing(a) or cmp.has_missing(b)):
        ctx.nontrivial(("td", via, mode, struct_sig(a), struct_sig(b), tuple(axa), tuple(axb)))
        ctx.sample({"op": "tensordot", "via": via, "axes": repr(axes), "mode": mode, "a": describe(a), "b": describe(b), "result_sectors": [repr(s) for s in res.blocks]})


def case_self(ctx, rng):
    """The SAME object as both operands (squaring an operator): legs k..2k-1 are the conjugates
    of legs 0..k-1 and are contracted with them."""
    import autoray as ar

    sr = ctx.sr
    sym = gen.pick_sym(rng)
    k = rng.choice([1, 2, 2, 3])
    vals = gen.Values(rng, "int", dtype_for(rng))
    head = [gen.rand_index(sr, rng, sym, maxc=3, maxd=2) for _ in range(k)]
    idx = head + [gen.conj_index(sr, ix) for ix in head]
    x = gen.make_array(sr, rng, sym, idx, charge=R.identity(sym) if rng.random() < 0.7 else None, values=vals, sparsity=rng.choice([0.0, 0.3, 0.6]))
    if not x.blocks:
        return
    axa, axb = list(range(k, 2 * k)), list(range(k))
    if rng.random() < 0.5:
        p_ = rng.sample(range(k), k)
        axa, axb = [axa[i] for i in p_], [axb[i] for i in p_]
    d = embed(x)
    exp = np.tensordot(d, d, axes=(axa, axb))
    ref = [x.indices[i] for i in range(2 * k) if i not in axa] + [x.indices[i] for i in range(2 * k) if i not in axb]
    mode = rng.choice(MODES)
    via = rng.choice(["function", "autoray", "matmul"]) if k == 1 else rng.choice(["function", "autoray"])
    wit = {"op": "tensordot(x, x)", "via": via, "axes": [axa, axb], "mode": mode, "x": describe(x, True)}
    if via == "matmul":
        o = ctx.call(lambda: x @ x)
    else:
        fn = sr.tensordot if via == "function" else (lambda a, b, **kw: ar.do("tensordot", a, b, **kw))
        o = ctx.call(fn, x, x, axes=(axa, axb), mode=mode, preserve_array=True)
    ctx.evaluated()
    ctx.count("op", "self-contraction")
    ctx.count("mode", str(mode))
    if not o.ok:
        ctx.violation(f"tensordot-raises-{o.excname}", f"contracting an array with itself raised {o.exc!r}", wit)
        return
    m = cmp.compare_array(o.value, ref, exp, True, 1.0, 1e-10)
    if m:
        ctx.violation(f"tensordot-{'structure' if 'index' in m or 'layout' in m else 'value'}", f"tensordot(x, x), mode={mode}: {m}", wit)
        return
    if k >= 2 and cmp.has_missing(x) and np.any(exp != 0):
        ctx.nontrivial(("self", mode, via, struct_sig(x), tuple(axa)))


def case_matmul(ctx, rng):
    sr = ctx.sr
    sym = gen.pick_sym(rng)
    vals = gen.Values(rng, "int", dtype_for(rng))
    shp = rng.choice([(1, 1), (1, 2), (2, 1), (2, 2)])
    k = gen.rand_index(sr, rng, sym)
    l_ = gen.rand_index(sr, rng, sym)
    r_ = gen.rand_index(sr, rng, sym)
    _, _, kind = gen.pick_class(sr, rng, sym, False)
    A = gen.make_array(sr, rng, sym, ([l_] if shp[0] == 2 else []) + [k], values=vals, kind=kind)
    B = gen.make_array(sr, rng, sym, [gen.conj_index(sr, k)] + ([r_] if shp[1] == 2 else []), values=vals, kind=kind)
    exp = np.tensordot(embed(A), embed(B), axes=([A.ndim - 1], [0]))
    o = ctx.call(lambda: A @ B)
    ctx.evaluated()
    ctx.count("op", "matmul")
    ctx.count("matmul_shape", str(shp))
    wit = {"op": "matmul", "a": describe(A, True), "b": describe(B, True)}
    if not o.ok:
        ctx.violation(f"matmul-raises-{o.excname}", f"{o.exc!r}", wit)
        return
    ref = ([A.indices[0]] if shp[0] == 2 else []) + ([B.indices[1]] if shp[1] == 2 else [])
    if not ref:
        if is_array(o.value) or not cmp.close(o.value, exp, True):
            ctx.violation("matmul-scalar-value", f"{o.value!r} != {exp!r}", wit)
        ctx.nontrivial(("mm-scalar", struct_sig(A), struct_sig(B)))
        return
    m = cmp.compare_array(o.value, ref, exp, True)
    if m:
        ctx.violation("matmul-value", m, wit)
        return
    if o.value.charge != R.comb(sym, [A.charge, B.charge]):
        ctx.violation("matmul-charge", f"{o.value.charge!r}", wit)
    if np.any(exp != 0) and (cmp.has_missing(A) or cmp.has_missing(B)):
        ctx.nontrivial(("mm", struct_sig(A), struct_sig(B)))


def case_trace(ctx, rng):
    import autoray as ar

    sr = ctx.sr
    sym = gen.pick_sym(rng)
    vals = gen.Values(rng, "int", dtype_for(rng))
    ix = gen.rand_index(sr, rng, sym)
    charge = R.identity(sym) if rng.random() < 0.7 else None
    x = gen.make_array(sr, rng, sym, [ix, gen.conj_index(sr, ix)], charge=charge, values=vals)
    exp = np.trace(embed(x))
    via = rng.choice(["method", "function", "autoray"])
    fn = {"method": lambda: x.trace(), "function": lambda: sr.trace(x), "autoray": lambda: ar.do("trace", x)}[via]
    o = ctx.call(fn)
    ctx.evaluated()
    ctx.count("op", "trace")
    wit = {"op": "trace", "via": via, "x": describe(x, True)}
    if not o.ok:
        ctx.violation(f"trace-raises-{o.excname}", f"{o.exc!r}", wit)
        return
    if not cmp.close(o.value, exp, True):
        ctx.violation("trace-value", f"{o.value!r} != dense trace {exp!r}", wit)
    if exp != 0:
        ctx.nontrivial(("trace", struct_sig(x)))


def case_einsum(ctx, rng):
    import autoray as ar

    sr = ctx.sr
    sym = gen.pick_sym(rng)
    vals = gen.Values(rng, "int", dtype_for(rng))
    npairs = rng.randint(0, 2)
    nfree = rng.randint(0, 2 if npairs else 3)
    letters, idx = [], []
    for p in range(npairs):
        ix = gen.rand_index(sr, rng, sym, maxd=2)
        letters += [chr(97 + p)] * 2
        idx += [ix, gen.conj_index(sr, ix)]
    for f in range(nfree):
        letters.append(chr(110 + f))
        idx.append(gen.rand_index(sr, rng, sym, maxd=2))
    if not letters:
        return
    order = rng.sample(range(len(letters)), len(letters))
    lhs = "".join(letters[o] for o in order)
    ids = [idx[o] for o in order]
    free = [l for l in lhs if lhs.count(l) == 1]
    rng.shuffle(free)
    rhs = "".join(free)
    # charge: from free legs only (traced pairs cancel)
    sec = [rng.choice(list(ix.chargemap)) for l, ix in zip(lhs, ids) if lhs.count(l) == 1]
    duals = [ix.dual for l, ix in zip(lhs, ids) if lhs.count(l) == 1]
    charge = R.sector_charge(sym, sec, duals)
    x = gen.make_array(sr, rng, sym, ids, charge=charge, values=vals)
    eq = f"{lhs}->{rhs}"
    exp = np.einsum(eq, embed(x))
    preserve = rng.random() < 0.5
    via = rng.choice(["method", "function", "autoray"])
    if via == "method":
        fn = lambda: x.einsum(eq, preserve_array=preserve)
    elif via == "function":
        preserve = False
        fn = lambda: sr.einsum(eq, x)
    else:
        preserve = False
        fn = lambda: ar.do("einsum", eq, x, like="symmray")
    o = ctx.call(fn)
    ctx.evaluated()
    ctx.count("op", "einsum")
    wit = {"op": "einsum", "eq": eq, "via": via, "x": describe(x, True)}
    if not o.ok:
        ctx.violation(f"einsum-raises-{o.excname}", f"{o.exc!r}", wit)
        return
    ref = [ids[lhs.index(c)] for c in rhs]
    if not rhs and not preserve:
        if is_array(o.value) or not cmp.close(o.value, exp, True):
            ctx.violation("einsum-scalar-value", f"{o.value!r} != {exp!r}", wit)
        ctx.nontrivial(("es-scalar", eq, struct_sig(x)))
        return
    m = cmp.compare_array(o.value, ref, exp, True)
    if m:
        ctx.violation("einsum-value", f"{eq}: {m}", wit)
        return
    if o.value.charge != x.charge:
        ctx.violation("einsum-charge", f"{o.value.charge!r} != {x.charge!r}", wit)
    if npairs and np.any(exp != 0):
        ctx.nontrivial(("es", eq, struct_sig(x)))


def run(ctx):
    for _, rng in ctx.cases("tensordot", ctx.budget(200000, 4000000)):
        ctx.run_case(case_tensordot, ctx, rng)
    for _, rng in ctx.cases("many-terms", ctx.budget(3000, 60000)):
        ctx.run_case(case_tensordot, ctx, rng, True)
    for _, rng in ctx.cases("self", ctx.budget(12000, 250000)):
        ctx.run_case(case_self, ctx, rng)
    for _, rng in ctx.cases("matmul", ctx.budget(30000, 600000)):
        ctx.run_case(case_matmul, ctx, rng)
    for _, rng in ctx.cases("trace", ctx.budget(15000, 300000)):
        ctx.run_case(case_trace, ctx, rng)
    for _, rng in ctx.cases("einsum", ctx.budget(35000, 700000)):
        ctx.run_case(case_einsum, ctx, rng)
