"""C10 — conjugation gives the bra: norms are positive and adjoint laws hold."""
import numpy as np

from symv import cmp, gen, named, network
from symv import graded as G
from symv import refsym as R
from symv.dense import describe, embed, index_sig, labels_of, phases_of, struct_sig
from symv.named import N, Raised, Surprise

META = {
    "level": "exploration",
    "level_text": "Algebraic-law monitors on every generated fermionic array: <x|x> = ||x||^2 through conj and through dagger (both operand orders, both contraction modes, scalar form) whenever all legs are ket-like or the dual-leg option is on; conj and dagger are involutions (values, indices, labels); dagger == conj followed by the fermionic reversal for both option values; conj agrees element for element with the GradedDense adjoint. Network law: 1-3 tensor networks conjugated tensor by tensor, bra-like dangling legs sign-flipped, <psi|psi> contracted along random routes equals ||psi||^2 (psi evaluated by the graded model) with no label left over. Exact arithmetic on integer data. Later additions: arrays carrying 2-3 labels, kets contracted before conjugation, in-place forms of conj / dagger for both option values, .H read - change in place - read again, subjects whose sign table names removed blocks (mirror sectors present). Round 9: every preserved rank-0 <x|x> read through a randomly chosen scalar protocol (item, float, complex, int, bool).",
    "technique": "runtime monitoring: algebraic-law oracles + reference-model (graded adjoint) + network history checker",
    "rule": (
        "one evaluation = one law instance checked on one array (or one route of one <psi|psi> network). Non-trivial = odd parity, or mixed dualness with the dual-leg option, "
        "or a network with a bra-like dangling leg; non-zero norm; distinct by (law, structure signature, option values)."
    ),
    "anchors": ["fermionic_core.FermionicArray.conj", "fermionic_core.FermionicArray.dagger", "fermionic_core.oddpos_dag", "fermionic_core.resolve_combined_oddpos", "abelian_core.BlockIndex.conj"],
    "floors": {
        "quick": {"evaluations": 8000, "distinct_nontrivial": 1200, "tables": {"law/norm-conj": 1500, "law/norm-dagger": 1500, "law/involution": 1500, "law/dagger=conjT": 800, "law/graded-adjoint": 800, "law/network-norm": 600, "feature/odd": 1500, "feature/bra-like-dangling": 100, "feature/removed-sector-mirrors-a-present-one": 200, "feature/multi-label-array": 300}},
        "thorough": {"evaluations": 250000, "distinct_nontrivial": 30000, "tables": {"law/network-norm": 30000}},
    },
    "wall": {"quick": 900, "thorough": 1700},
}


def norm2(x):
    return sum(float(np.sum(np.asarray(b).real ** 2 + np.asarray(b).imag ** 2)) for b in x.blocks.values())


def same_arrays(x, y):
    if tuple(index_sig(i) for i in x.indices) != tuple(index_sig(i) for i in y.indices):
        return "indices differ"
    if x.charge != y.charge:
        return f"charge {y.charge!r} vs {x.charge!r}"
    if labels_of(x) != labels_of(y):
        return f"labels {labels_of(y)} vs {labels_of(x)}"
    if not np.array_equal(embed(x), embed(y)):
        return "values differ"
    return None


def twice_mech(default, x, y, pd, odd, m):
    """Known finding: with the dual-leg option, applying conj (or dagger) twice multiplies an
    odd-parity array by -1 (every leg is sign-flipped exactly once over the two applications)."""
    if pd and odd and m == "values differ" and np.array_equal(embed(x), -embed(y)):
        return "phase-dual-twice-gives-minus-one-for-odd-parity"
    return default


def case_array(ctx, rng, dormant=False):
    sr = ctx.sr
    sym = gen.pick_sym(rng)
    vals = gen.Values(rng, "int", rng.choice(["float64", "complex128"]))
    pattern = rng.choice(["random", "random", "all-ket", "all-bra"])
    nd = rng.randint(1, 4)
    idx = [gen.rand_index(sr, rng, sym, maxd=2, dual={"all-ket": False, "all-bra": True}.get(pattern)) for _ in range(nd)]
    lab = gen.label_for(rng, rng.choice(["int", "tuple", "str"]))
    if not dormant and rng.random() < 0.06:
        # 6-8 legs, two charges of size one each: sectors with 6-8 odd charges
        nd = rng.randint(6, 8)
        idx = [gen.rand_index(sr, rng, sym, maxc=2, maxd=1, p_single=0.0, minc=2, dual={"all-ket": False, "all-bra": True}.get(pattern)) for _ in range(nd)]
        ctx.count("feature", "six-or-more-legs")
    if dormant:
        # every leg lists the same charges (so the mirror image of a sector is a sector too);
        # after pending signs are created, one charge of one leg is removed WITHOUT synchronising
        nd = rng.randint(2, 3)
        cs = rng.sample(gen.POOL[sym], rng.randint(2, min(3, len(gen.POOL[sym]))))
        d_ = rng.randint(1, 2)
        idx = [sr.BlockIndex({c: d_ for c in sorted(cs)}, dual=(rng.random() < 0.5) if pattern == "random" else (pattern == "all-bra")) for _ in range(nd)]
    x = gen.make_array(sr, rng, sym, idx, fermionic=True, values=vals, label=lab, sparsity=0.0 if dormant else None)
    if dormant:
        if len(x.blocks) < 2:
            return
        gen.add_phases(rng, x, rng.randint(1, 3))
        x2 = gen.dormant_signs(sr, rng, x)
        if x2 is x or not x2.blocks:
            return
        x = x2
        if any(k_ not in x.blocks for k_ in phases_of(x)):
            ctx.count("feature", "sign-entries-for-removed-blocks")
        if any(k_ not in x.blocks and k_[::-1] in x.blocks for k_ in phases_of(x)):
            ctx.count("feature", "removed-sector-mirrors-a-present-one")
    if rng.random() < 0.3 and not dormant:
        # an array carrying two or three labels: open-legged product of odd tensors
        parts = []
        labs = rng.sample(range(1, 50), 3)
        _, _, kind = gen.pick_class(sr, rng, sym, True)
        for k in range(rng.choice([2, 2, 3])):
            pidx = [gen.rand_index(sr, rng, sym, maxd=2, dual={"all-ket": False, "all-bra": True}.get(pattern)) for _ in range(rng.randint(1, 2))]
            odd_secs = [sec for sec in __import__("itertools").product(*[list(ix.chargemap) for ix in pidx]) if R.par(sym, R.sector_charge(sym, sec, [ix.dual for ix in pidx]))]
            if not odd_secs:
                parts = []
                break
            ch = R.sector_charge(sym, rng.choice(odd_secs), [ix.dual for ix in pidx])
            parts.append(gen.make_array(sr, rng, sym, pidx, charge=ch, fermionic=True, kind=kind, values=vals, label=labs[k], sparsity=0.0))
        if len(parts) >= 2:
            cur = parts[0]
            okp = True
            for p_ in parts[1:]:
                o_ = ctx.call(sr.tensordot, cur, p_, axes=0, preserve_array=True)
                if not o_.ok:
                    okp = False
                    break
                cur = o_.value
            if okp and cur.ndim <= 5 and len(labels_of(cur)) >= 2:
                x = cur
                nd = x.ndim
                ctx.count("feature", "multi-label-array")
    if x.ndim and len(x.blocks) >= 2 and rng.random() < 0.15:
        # pending signs first, then blocks removed by an operation that does not synchronise:
        # sign entries stay behind for blocks that no longer exist
        gen.add_phases(rng, x, rng.randint(1, 2))
        x2 = gen.dormant_signs(sr, rng, x)
        if x2 is not x and x2.blocks:
            x = x2
            if any(k_ not in x.blocks for k_ in phases_of(x)):
                ctx.count("feature", "sign-entries-for-removed-blocks")
    if not dormant and rng.random() < 0.12 and gen.real_parts_in_some_blocks(rng, x):
        # real and complex blocks side by side (what a + 1j * b leaves behind)
        ctx.count("feature", "real-and-complex-blocks")
    n2 = norm2(x)
    odd = R.par(sym, x.charge)
    allket = all(not ix.dual for ix in x.indices)
    allbra = all(ix.dual for ix in x.indices)
    wit = {"x": describe(x, True)}
    sig = struct_sig(x)
    if odd:
        ctx.count("feature", "odd")
    if not (allket or allbra):
        ctx.count("feature", "mixed-dualness")

    def V(mech, msg, **kw):
        ctx.violation(mech, msg, dict(wit, **kw))

    axes_all = list(range(nd))
    for pd in (False, True):
        oc = ctx.call(lambda: x.conj(phase_dual=pd))
        if not oc.ok:
            V(f"conj-raises-{oc.excname}", repr(oc.exc), phase_dual=pd)
            continue
        xc = oc.value
        # the in-place call form gives the same bra (on a copy, returned as that copy)
        if rng.random() < 0.5:
            xi = x.copy()
            oi = ctx.call(lambda: xi.conj(phase_dual=pd, inplace=True))
            ctx.evaluated()
            ctx.count("law", "conj-inplace=conj")
            if not oi.ok:
                V(f"conj-raises-{oi.excname}", f"inplace=True: {oi.exc!r}", phase_dual=pd)
            elif oi.value is not xi or same_arrays(xi, xc):
                V("conj-inplace-differs", f"conj(phase_dual={pd}, inplace=True) differs from the out-of-place conjugate: {'returned another object' if oi.value is not xi else same_arrays(xi, xc)}", phase_dual=pd)
        # labels: reversed conjugates
        if labels_of(xc) != [(l, not d) for l, d in reversed(labels_of(x))]:
            V("conj-labels", f"labels of conj {labels_of(xc)} are not the reversed conjugates of {labels_of(x)}", phase_dual=pd)
        if xc.charge != R.neg(sym, x.charge) or [bool(i.dual) for i in xc.indices] != [not i.dual for i in x.indices]:
            V("conj-structure", "charge or directions of the conjugate are wrong", phase_dual=pd)
        # graded adjoint model
        ctx.evaluated()
        ctx.count("law", "graded-adjoint")
        model = G.adjoint_inplace_layout(G.from_array(x), phase_dual=pd)
        if not np.array_equal(embed(xc), model.data):
            V("conj-vs-graded-adjoint", f"conj(phase_dual={pd}) differs from the graded adjoint", phase_dual=pd)
            continue
        # norm law
        if pd or allket:
            for order in ("conj,x", "x,conj"):
                for mode in ("fused", "blockwise"):
                    ctx.evaluated()
                    ctx.count("law", "norm-conj")
                    a, b = (xc, x) if order == "conj,x" else (x, xc)
                    o = ctx.call(sr.tensordot, a, b, axes=(axes_all, axes_all), mode=mode)
                    if not o.ok:
                        V(f"tensordot-raises-{o.excname}", repr(o.exc), phase_dual=pd)
                    elif not cmp.close(o.value, n2, True):
                        V("norm-conj", f"<x|x> via conj(phase_dual={pd}), order {order}, mode {mode} = {o.value!r} != ||x||^2 = {n2}", phase_dual=pd, order=order, mode=mode)
            # the same number read off the PRESERVED rank-0 result through the scalar protocols
            order = rng.choice(["conj,x", "x,conj"])
            a, b = (xc, x) if order == "conj,x" else (x, xc)
            o = ctx.call(sr.tensordot, a, b, axes=(axes_all, axes_all), mode=rng.choice(["fused", "blockwise", None]), preserve_array=True)
            if o.ok and getattr(o.value, "ndim", None) == 0:
                cplx = any(np.iscomplexobj(b_) for b_ in o.value.blocks.values())
                readers = {"item": lambda z: z.item(), "complex": lambda z: complex(z), "bool": lambda z: bool(z)}
                if not cplx:
                    readers["float"] = lambda z: float(z)
                    if float(n2).is_integer():
                        readers["int"] = lambda z: int(z)
                rd = rng.choice(sorted(readers))
                r_ = ctx.call(readers[rd], o.value)
                ctx.evaluated()
                ctx.count("law", "norm-conj-preserved-scalar-read")
                ctx.count("reader", rd)
                want_ = bool(n2) if rd == "bool" else n2
                if not r_.ok:
                    V(f"{rd}-raises-{r_.excname}", f"{rd}(<x|x> kept as an array): {r_.exc!r}", phase_dual=pd, order=order)
                elif (rd == "bool" and r_.value != want_) or (rd != "bool" and not cmp.close(r_.value, n2, True)):
                    V("norm-conj", f"<x|x> via conj(phase_dual={pd}), order {order}, kept as a rank-0 array and read with {rd}() = {r_.value!r} != ||x||^2 = {n2}", phase_dual=pd, order=order, reader=rd)
            if n2 and (odd or (pd and not allket and not allbra)):
                ctx.nontrivial(("norm-conj", sig, pd))
        else:
            # docstring law: both operand orders agree for any option value
            ctx.evaluated()
            ctx.count("law", "norm-orders-agree")
            o1 = ctx.call(sr.tensordot, xc, x, axes=(axes_all, axes_all))
            o2 = ctx.call(sr.tensordot, x, xc, axes=(axes_all, axes_all))
            if o1.ok and o2.ok and not cmp.close(o1.value, o2.value, True):
                V("norm-orders-differ", f"tensordot(conj, x) = {o1.value!r} != tensordot(x, conj) = {o2.value!r}", phase_dual=pd)
        # involution
        ctx.evaluated()
        ctx.count("law", "involution")
        o = ctx.call(lambda: xc.conj(phase_dual=pd))
        if not o.ok:
            V(f"conj-raises-{o.excname}", repr(o.exc), phase_dual=pd)
        else:
            m = same_arrays(x, o.value)
            if m:
                V(twice_mech("conj-involution", x, o.value, pd, odd, m), f"conj(conj(x)) != x with phase_dual={pd}: {m}", phase_dual=pd)
            elif odd and n2:
                ctx.nontrivial(("invol-conj", sig, pd))
        # dagger
        od = ctx.call(lambda: x.dagger(phase_dual=pd))
        if not od.ok:
            V(f"dagger-raises-{od.excname}", repr(od.exc), phase_dual=pd)
            continue
        xd = od.value
        if rng.random() < 0.5:
            xi2 = x.copy()
            oi2 = ctx.call(lambda: xi2.dagger(phase_dual=pd, inplace=True))
            ctx.evaluated()
            ctx.count("law", "dagger-inplace=dagger")
            if not oi2.ok:
                V(f"dagger-raises-{oi2.excname}", f"inplace=True: {oi2.exc!r}", phase_dual=pd)
            elif oi2.value is not xi2 or same_arrays(xi2, xd):
                V("dagger-inplace-differs", f"dagger(phase_dual={pd}, inplace=True) differs from the out-of-place adjoint: {'returned another object' if oi2.value is not xi2 else same_arrays(xi2, xd)}", phase_dual=pd)
        if pd is False and rng.random() < 0.4:
            # the property form .H, read twice on one object with an in-place change in between
            xh = x.copy()
            h1 = ctx.call(lambda: xh.H)
            how = rng.choice(["imul", "itruediv", "apply_to_arrays", "phase_global", "imul-then-phase_sync"])
            try:
                if how == "imul":
                    xh *= 2.0
                elif how == "itruediv":
                    xh /= 4.0
                elif how == "apply_to_arrays":
                    xh.apply_to_arrays(lambda b_: b_ * -3.0)
                elif how == "phase_global":
                    xh.phase_global(inplace=True)
                else:
                    xh *= 0.5
                    xh.phase_sync(inplace=True)
            except Exception:
                how = None
            if how and h1.ok:
                h2 = ctx.call(lambda: xh.H)
                d2 = ctx.call(lambda: xh.dagger())
                ctx.evaluated()
                ctx.count("law", ".H-after-inplace-change")
                if h2.ok and d2.ok and same_arrays(h2.value, d2.value):
                    V("H-stale-after-inplace-change", f"x.H read again after {how} on x differs from x.dagger(): {same_arrays(h2.value, d2.value)}", phase_dual=pd)
        ctx.evaluated()
        ctx.count("law", "dagger=conjT")
        ot = ctx.call(lambda: xc.transpose())
        if ot.ok:
            m = same_arrays(ot.value, xd)
            if m:
                mech = "dagger-phase-dual-flips-complementary-legs" if pd else "dagger-vs-conj-transpose"
                V(mech, f"dagger(phase_dual={pd}) != conj(phase_dual={pd}).transpose(): {m}", phase_dual=pd)
            elif n2 and (odd or pd):
                ctx.nontrivial(("dag=conjT", sig, pd))
        if pd or allket:
            rev = axes_all[::-1]
            for order in ("dag,x", "x,dag"):
                ctx.evaluated()
                ctx.count("law", "norm-dagger")
                if order == "dag,x":
                    o = ctx.call(sr.tensordot, xd, x, axes=(rev, axes_all), mode=rng.choice(["fused", "blockwise"]))
                else:
                    o = ctx.call(sr.tensordot, x, xd, axes=(axes_all, rev), mode=rng.choice(["fused", "blockwise"]))
                if not o.ok:
                    V(f"tensordot-raises-{o.excname}", repr(o.exc), phase_dual=pd)
                elif not cmp.close(o.value, n2, True):
                    mech = "dagger-phase-dual-flips-complementary-legs" if pd else "norm-dagger"
                    V(mech, f"<x|x> via dagger(phase_dual={pd}), order {order} = {o.value!r} != ||x||^2 = {n2}", phase_dual=pd, order=order)
            if n2 and odd:
                ctx.nontrivial(("norm-dag", sig, pd))
        ctx.evaluated()
        ctx.count("law", "involution")
        o = ctx.call(lambda: xd.dagger(phase_dual=pd))
        if o.ok:
            m = same_arrays(x, o.value)
            if m:
                V(twice_mech("dagger-involution", x, o.value, pd, odd, m), f"dagger(dagger(x)) != x with phase_dual={pd}: {m}", phase_dual=pd)
        else:
            V(f"dagger-raises-{o.excname}", repr(o.exc), phase_dual=pd)
    # .H
    oh = ctx.call(lambda: x.H)
    if oh.ok:
        od0 = ctx.call(lambda: x.dagger())
        if od0.ok and same_arrays(oh.value, od0.value):
            V("H-vs-dagger", "x.H != x.dagger()")
    ctx.sample({"x": describe(x), "norm2": n2}, limit=2)


def case_network(ctx, rng):
    sr = ctx.sr
    sym = gen.pick_sym(rng)
    nt = rng.choice([1, 2, 2, 3])
    try:
        kets = network.build_network(ctx, rng, sym, nt, pbond=0.9, maxdang=2, p_conj=0.0, label_kind=rng.choice(["int", "tuple"]))
        if any(not t.x.blocks for t in kets):
            return
        dang = network.dangling(kets)
        if rng.random() < 0.5 and len(kets) >= 2:
            # the kets have already been used (fused contraction) before they are conjugated
            network.random_route(ctx, rng, kets, modes=("fused", "auto"))
            ctx.count("feature", "kets-contracted-before-conj")
        bra_like = [nm for t in kets for nm, ix in zip(t.names, t.x.indices) if nm in dang and ix.dual]
        bras = []
        for t in kets:
            o = ctx.call(t.x.conj)
            if not o.ok:
                raise Raised("conj", o)
            b = o.value
            flip = [k for k, nm in enumerate(t.names) if nm in bra_like]
            if flip:
                o = ctx.call(lambda: b.phase_flip(*flip))
                if not o.ok:
                    raise Raised("phase_flip", o)
                b = o.value
            bras.append(N(b, [nm if nm in dang else nm + "*" for nm in t.names]))
    except Raised as e:
        ctx.violation(f"{e.op}-raises-{e.outcome.excname}", str(e), {"symmetry": sym})
        return
    pars = [network.parity_of(t.x) for t in kets]
    refidx = network.ref_indices(kets)
    psi, lab_psi, order = network.reference_value(kets, pars, refidx)
    n2 = float(np.sum(psi.real ** 2 + psi.imag ** 2))
    wit = {"kets": [dict(describe(t.x, True), legs=t.names) for t in kets], "bra_like_dangling": bra_like}
    if bra_like:
        ctx.count("feature", "bra-like-dangling")
    if sum(pars):
        ctx.count("feature", "odd")
    full = kets + bras
    for r in range(ctx.n(4, 8)):
        rec = []
        ctx.evaluated()
        ctx.count("law", "network-norm")
        try:
            z = network.random_route(ctx, rng, full, record=rec)
        except Raised as e:
            ctx.violation(f"{e.op}-raises-{e.outcome.excname}", f"route {rec}: {e}", dict(wit, route=rec))
            return
        except Surprise as e:
            ctx.violation(e.mech, str(e), dict(wit, route=rec))
            return
        if z.x.ndim != 0:
            ctx.violation("network-legs-left", f"legs {z.names} left over", dict(wit, route=rec))
            return
        if labels_of(z.x):
            ctx.violation("network-labels-left", f"<psi|psi> ends with labels {labels_of(z.x)} not annihilated", dict(wit, route=rec))
            return
        val = z.x.blocks[()] * phases_of(z.x).get((), 1) if () in z.x.blocks else 0.0
        if () in z.x.blocks and rng.random() < 0.5:
            rd_ = ctx.call(complex, z.x)
            ctx.count("reader", "complex-network")
            if rd_.ok:
                val = rd_.value
            else:
                ctx.violation(f"complex-raises-{rd_.excname}", f"complex(<psi|psi>): {rd_.exc!r}", dict(wit, route=rec))
                return
        if not cmp.close(val, n2, True):
            ctx.violation("network-norm", f"<psi|psi> = {val!r} != ||psi||^2 = {n2} along route {rec}", dict(wit, route=rec))
            return
    # scalar form of one more route (last step without preserve_array)
    try:
        items = list(full)
        while len(items) > 2:
            i, j = rng.sample(range(len(items)), 2)
            zz = named.contract(ctx, items[i], items[j], mode=rng.choice(["fused", "blockwise"]))
            items = [it for k, it in enumerate(items) if k not in (i, j)] + [zz]
        if len(items) == 2:
            a, b = items if rng.random() < 0.5 else items[::-1]
            shared = [nm for nm in a.names if nm in b.names]
            o = ctx.call(sr.tensordot, a.x, b.x, axes=([a.names.index(s) for s in shared], [b.names.index(s) for s in shared]))
            ctx.evaluated()
            ctx.count("law", "network-norm-scalar-form")
            if not o.ok:
                raise Raised("tensordot", o)
            if not cmp.close(o.value, n2, True):
                ctx.violation("network-norm-scalar", f"scalar <psi|psi> = {o.value!r} != {n2}", wit)
                return
    except Raised as e:
        ctx.violation(f"{e.op}-raises-{e.outcome.excname}", str(e), wit)
        return
    if n2 and (bra_like or sum(pars)):
        ctx.nontrivial(("net", sym, tuple(tuple(t.names) for t in kets), tuple(pars), tuple(bra_like), tuple(tuple(ix.dual for ix in t.x.indices) for t in kets)))
        ctx.sample({"network": [dict(describe(t.x), legs=t.names) for t in kets], "bra_like_dangling": bra_like, "norm2": n2}, limit=2)


def run(ctx):
    for _, rng in ctx.cases("arrays", ctx.budget(12000, 250000)):
        ctx.run_case(case_array, ctx, rng)
    for _, rng in ctx.cases("dormant-signs", ctx.budget(3000, 60000)):
        ctx.run_case(case_array, ctx, rng, True)
    for _, rng in ctx.cases("networks", ctx.budget(6000, 120000)):
        ctx.run_case(case_network, ctx, rng)
