"""C12 — spectra and solutions equal those of the dense matrix."""
import numpy as np

from symv import cmp, gen, lingen
from symv import refsym as R
from symv.dense import describe, embed, is_fermionic, struct_sig, vec_dense

META = {
    "level": "exploration",
    "level_text": "Each monitored svd / eigh / norm / solve call is compared with numpy.linalg on the independently densified matrix: the library's singular values, as a sorted multiset, equal the dense singular values (zero padded); eigenvalues equal eigvalsh of the dense matrix restricted to the stored diagonal blocks (abelian); the Frobenius norm equals the dense norm; the solution equals numpy.linalg.solve on the dense system (abelian, invertible). Fermionic matrices: singular values and norm only (sign-gauge invariant). Seeded random exploration with the C11 generator. Later additions: operators of non-zero total charge (solution audited, charge checked), invertible blocks of condition 1e10 judged by the residual, block-less right-hand sides, very elongated ill-conditioned blocks, structured and large blocks. Round 9: integer- and bool-typed Hermitian matrices and integer operators, blocks with null rows / columns, user-defined symmetries.",
    "technique": "runtime monitoring: differential oracle (numpy.linalg on the independently densified matrix)",
    "rule": (
        "one evaluation = one library call compared with numpy.linalg on the densified operand. Non-trivial = matrix with >=2 blocks of different shapes, a rank-deficient block or a missing block; "
        "distinct by (function, structure signature, features)."
    ),
    "anchors": ["linalg.svd", "linalg.eigh", "linalg.solve", "block_core.BlockBase.norm"],
    "floors": {
        "quick": {"evaluations": 4000, "distinct_nontrivial": 800, "tables": {"fn/svd": 1500, "fn/norm": 1500, "fn/eigh": 400, "fn/solve": 400, "feature/fermionic": 800, "feature/missing-blocks": 300}},
        "thorough": {"evaluations": 120000, "distinct_nontrivial": 25000, "tables": {"fn/eigh": 8000, "fn/solve": 8000}},
    },
    "wall": {"quick": 900, "thorough": 1500},
}


def case_svd_norm(ctx, rng):
    import autoray as ar

    sr = ctx.sr
    x, feats = lingen.rand_matrix(ctx, rng)
    if x is None or not x.blocks:
        return
    if rng.random() < 0.12:
        f_ = rng.choice([1e-9, 1e-12, 1e-6, 1e7])
        for s_ in list(x.blocks):
            x.blocks[s_] = x.blocks[s_] * f_
        ctx.count("feature", "rescaled-data")
    d = embed(x)
    wit = {"x": describe(x, True)}
    for f in feats:
        ctx.count("feature", f)
    nt = bool({"blocks-of-different-shapes", "rank-deficient-block", "missing-blocks"} & feats)
    scale = float(np.linalg.norm(d)) or 1.0
    # norm of an array holding real and complex blocks side by side (a + 1j * b with b sparser)
    if len(x.blocks) >= 2 and rng.random() < 0.08:
        xm = x.copy()
        if not any(np.iscomplexobj(b) for b in xm.blocks.values()):
            for s_ in list(xm.blocks)[1:]:
                if rng.random() < 0.6:
                    xm.blocks[s_] = xm.blocks[s_] * (1.0 + 0.5j)
        if gen.real_parts_in_some_blocks(rng, xm):
            dm = embed(xm)
            om = ctx.call(lambda: xm.norm())
            ctx.evaluated()
            ctx.count("feature", "norm-real-and-complex-blocks")
            witm = {"x": describe(xm, True), "block_dtypes": [str(b.dtype) for b in xm.blocks.values()]}
            if not om.ok:
                ctx.violation(f"norm-raises-{om.excname}", repr(om.exc), witm)
            else:
                v_ = complex(om.value)
                if abs(v_.imag) > 0 or abs(v_.real - float(np.linalg.norm(dm))) > 1e-12 * (float(np.linalg.norm(dm)) or 1.0):
                    ctx.violation("norm-value", f"norm {om.value!r} of an array with real and complex blocks != dense Frobenius norm {np.linalg.norm(dm)!r}", witm)
    # norm
    via = rng.choice(["method", "function", "autoray"])
    o = ctx.call({"method": lambda: x.norm(), "function": lambda: sr.linalg.norm(x), "autoray": lambda: ar.do("linalg.norm", x)}[via])
    ctx.evaluated()
    ctx.count("fn", "norm")
    if not o.ok:
        ctx.violation(f"norm-raises-{o.excname}", repr(o.exc), wit)
    elif abs(float(o.value) - float(np.linalg.norm(d))) > 1e-12 * scale:
        ctx.violation("norm-value", f"norm {o.value!r} != dense Frobenius norm {np.linalg.norm(d)!r}", wit)
    elif nt:
        ctx.nontrivial(("norm", struct_sig(x)))
    # singular values
    via = rng.choice(["function", "autoray", "truncated-no-cut"])
    if via == "truncated-no-cut":
        o = ctx.call(lambda: sr.linalg.svd_truncated(x, cutoff=0.0, max_bond=-1, absorb=None))
    else:
        o = ctx.call((lambda: sr.linalg.svd(x)) if via == "function" else (lambda: ar.do("linalg.svd", x)))
    ctx.evaluated()
    ctx.count("fn", "svd")
    if not o.ok:
        ctx.violation(f"svd-raises-{o.excname}", repr(o.exc), wit)
        return
    s = o.value[1]
    got = np.sort(vec_dense(s))[::-1]
    exp = np.linalg.svd(d, compute_uv=False)
    n = max(len(got), len(exp))
    gp = np.zeros(n)
    gp[: len(got)] = got
    ep = np.zeros(n)
    ep[: len(exp)] = exp
    if not np.allclose(gp, ep, atol=1e-10 * scale, rtol=0):
        ctx.violation("singular-values", f"singular values {got} != dense singular values {exp} (zero padded)", wit)
    elif nt:
        ctx.nontrivial(("svd", via, struct_sig(x), tuple(sorted(feats))))
        ctx.sample({"fn": "svd", "x": describe(x), "singular_values": [float(v) for v in got[:8]]}, limit=3)


def case_eigh(ctx, rng):
    sr = ctx.sr
    x, feats = lingen.hermitian_matrix(ctx, rng, fermionic=False)
    if not x.blocks:
        return
    if "integer-typed-blocks" in feats:
        pass
    elif rng.random() < 0.12:
        f_ = rng.choice([1e-9, 1e-12, 1e7])
        for s_ in list(x.blocks):
            x.blocks[s_] = x.blocks[s_] * f_
        ctx.count("feature", "rescaled-data")
    elif rng.random() < 0.15:
        for s_, b_ in list(x.blocks.items()):
            x.blocks[s_] = (np.diag(np.diag(b_).real) + 1e-9 * (b_ - np.diag(np.diag(b_)))).astype(b_.dtype)
        ctx.count("feature", "nearly-diagonal")
    d = embed(x)
    wit = {"x": describe(x, True)}
    o = ctx.call(lambda: sr.linalg.eigh(x))
    ctx.evaluated()
    ctx.count("fn", "eigh")
    for f in feats:
        ctx.count("feature", f)
    if not o.ok:
        ctx.violation(f"eigh-raises-{o.excname}", repr(o.exc), wit)
        return
    el, ev = o.value
    got = np.sort(vec_dense(el))
    # dense matrix restricted to the charges whose diagonal block is stored
    from symv.dense import offsets

    offs, _ = offsets(x.indices[0])
    keep = []
    for (r, c) in x.blocks:
        s0, dd = offs[r]
        keep += list(range(s0, s0 + dd))
    keep = sorted(keep)
    sub = d[np.ix_(keep, keep)]
    exp = np.linalg.eigvalsh(sub)
    scale = float(np.abs(exp).max(initial=0)) or 1.0
    # eigenvalue perturbation theory: accuracy relative to the matrix norm
    if got.shape != exp.shape or not np.allclose(got, exp, atol=1e-10 * scale, rtol=0):
        ctx.violation("eigenvalues", f"eigenvalues {got} != dense eigenvalues on the stored sectors {exp}", wit)
        return
    # eigenvectors: a v = lambda v on the dense matrix
    V = embed(ev, x.indices)
    lam = np.zeros(V.shape[1])
    offc, _ = offsets(x.indices[1])
    for c, v in el.blocks.items():
        s0, dd = offc[c]
        lam[s0 : s0 + dd] = np.asarray(v)
    if not np.allclose(d @ V, V * lam[None, :], atol=1e-9 * scale, rtol=0):
        ctx.violation("eigenvectors", "dense(a) @ V != V @ diag(eigenvalues)", wit)
        return
    if len(x.blocks) >= 2 or "missing-blocks" in feats:
        ctx.nontrivial(("eigh", struct_sig(x)))


def case_solve(ctx, rng):
    sr = ctx.sr
    sym = rng.choice(gen.SYMS5)
    d_ = rng.randint(1, 3)
    dt_ = rng.choice(["float64", "complex128"])
    if sym in ("Z2", "Z4", "Z2Z2") and rng.random() < 0.7:
        cs = list(gen.POOL[sym])  # full group: any total charge gives an invertible block pattern
        q = rng.choice(cs)
    else:
        cs = rng.sample(gen.POOL[sym], rng.randint(1, min(3, len(gen.POOL[sym]))))
        q = R.identity(sym)
    r_ = sr.BlockIndex({c: d_ for c in cs}, dual=rng.random() < 0.5)
    feats = {"abelian", "direct"} | ({"complex"} if dt_ == "complex128" else set())
    if sym in ("U1", "U1U1", "Z4") and rng.random() < 0.5:
        # operator with a non-zero total charge: the column table is the row table shifted by
        # the charge, so that every row charge meets exactly one column charge (square blocks)
        q = rng.choice([c for c in gen.POOL[sym] if c != R.identity(sym)])
        dual_c = rng.random() < 0.5
        cm = {}
        for c in cs:
            t = R.comb(sym, [q, R.neg(sym, R.signed(sym, c, r_.dual))])  # signed column charge
            cm[R.neg(sym, t) if dual_c else t] = d_
        col = sr.BlockIndex(dict(sorted(cm.items())), dual=dual_c)
        a = gen.make_array(sr, rng, sym, [r_, col], charge=q, values=gen.Values(rng, "gauss", dt_), sparsity=0.0)
        feats.add("charged-operator")
        feats.add("operator-layout-" + ("-" if r_.dual else "+") + ("-" if dual_c else "+"))
    else:
        a = gen.make_array(sr, rng, sym, [r_, gen.conj_index(sr, r_)], charge=q, values=gen.Values(rng, "gauss", dt_), sparsity=0.0)
        if q != R.identity(sym):
            feats.add("charged-operator")
    if not a.blocks:
        return
    for s, b in list(a.blocks.items()):
        a.blocks[s] = b + 3.0 * np.eye(b.shape[0])
    fa = rng.choice([1.0, 1.0, 1.0, 1e-9, 1e6])
    if fa != 1.0:
        for s in list(a.blocks):
            a.blocks[s] = a.blocks[s] * fa
    illcond = False
    if fa == 1.0 and rng.random() < 0.08:
        # one block with singular values (1, ..., 1e-10 .. 1e-11): invertible, condition 1e10-1e11
        s_ = rng.choice(list(a.blocks))
        bb = np.asarray(a.blocks[s_])
        if bb.shape[0] >= 2:
            u_, _, vh_ = np.linalg.svd(bb)
            sv = np.ones(bb.shape[0])
            sv[-1] = rng.choice([1e-10, 3e-11, 1e-11])
            a.blocks[s_] = ((u_ * sv) @ vh_).astype(bb.dtype)
            illcond = True
            feats.add("block-of-condition-1e10")
    da = embed(a)
    if da.shape[0] != da.shape[1] or (np.linalg.cond(da) > 1e6 and not illcond):
        ctx.count("solve", "dense-not-invertible-skipped")
        return
    kind = "static" if type(a).static_symmetry else "generic_str"
    b = gen.make_array(sr, rng, sym, [a.indices[0]], kind=kind, values=gen.Values(rng, "gauss", str(next(iter(a.blocks.values())).dtype)), sparsity=rng.choice([0.0, 0.4]))
    if b.blocks and rng.random() < 0.06:
        # the symmetric ZERO vector of that charge: no stored block at all
        for s_ in list(b.blocks):
            del b.blocks[s_]
        feats.add("right-hand-side-without-blocks")
    if not b.blocks and "right-hand-side-without-blocks" not in feats:
        return
    fb = rng.choice([1.0, 1.0, 1.0, 1e-9, 1e-12, 1e5])
    if fb != 1.0:
        for s in list(b.blocks):
            b.blocks[s] = b.blocks[s] * fb
        ctx.count("feature", "rescaled-data")
    wit = {"a": describe(a, True), "b": describe(b, True)}
    o = ctx.call(lambda: sr.linalg.solve(a, b))
    ctx.evaluated()
    ctx.count("fn", "solve")
    for f in feats:
        ctx.count("feature", f)
    if not o.ok:
        ctx.violation(f"solve-raises-{o.excname}", repr(o.exc), wit)
        return
    x = o.value
    exp = np.linalg.solve(da, embed(b))
    ref = gen.conj_index(sr, a.indices[1])
    try:
        got = embed(x, [ref])
    except Exception as e:
        ctx.violation("solve-layout", str(e), wit)
        return
    if illcond:
        # the dense solution itself is only good to cond * eps here: judge the (backward stable)
        # residual instead - a truncated or regularised solve leaves a residual of order one
        db = embed(b)
        res_ = float(np.abs(da @ got - db).max(initial=0))
        scale_ = float(np.abs(da).max() * np.abs(got).max(initial=0) + np.abs(db).max(initial=0)) or 1.0
        if not res_ <= 1e-7 * scale_:
            ctx.violation("solve-value", f"ill-conditioned (1e10) but invertible system: residual |a x - b| = {res_} (scale {scale_}); numpy.linalg.solve leaves {float(np.abs(da @ exp - db).max(initial=0))}", wit)
            return
    elif not np.allclose(got, exp, atol=1e-9 * (float(np.abs(exp).max(initial=0)) or 1.0), rtol=0):
        ctx.violation("solve-value", f"solution differs from numpy.linalg.solve on the dense system, max|diff| {cmp.maxdiff(got, exp)}", wit)
        return
    # the solution is a valid array of total charge  charge(b) - charge(a)
    from symv.audit import audit

    errs = audit(x)
    want_q = R.comb(sym, [b.charge, R.neg(sym, a.charge)])
    if errs or x.charge != want_q:
        ctx.violation("solve-invalid-solution", f"solution charge {x.charge!r} (expected {want_q!r}); {'; '.join(errs[:2])}", wit)
        return
    if len(a.blocks) >= 2:
        ctx.nontrivial(("solve", struct_sig(a), struct_sig(b)))


def run(ctx):
    for _, rng in ctx.cases("svd-norm", ctx.budget(180000, 3000000)):
        ctx.run_case(case_svd_norm, ctx, rng)
    for _, rng in ctx.cases("eigh", ctx.budget(50000, 900000)):
        ctx.run_case(case_eigh, ctx, rng)
    for _, rng in ctx.cases("solve", ctx.budget(65000, 1200000)):
        ctx.run_case(case_solve, ctx, rng)
