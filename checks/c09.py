"""C09 — lazily tracked fermionic signs are unobservable."""
import numpy as np

from symv import cmp, gen
from symv import refsym as R
from symv.dense import describe, embed, embed_vec, index_sig, is_array, is_vector, labels_of, phases_of, struct_sig

META = {
    "level": "exploration",
    "level_text": "Differential monitoring: every public operation (and lock-step programs of up to 20 of them) is issued on a fermionic array with pending signs and on an independently synchronised twin built by the harness (new object, signs multiplied in, empty table; phase_sync is not used to build it). Paired results must have the same structure, labels and exactly equal dense values; scalars and booleans equal; for decompositions the gauge-invariant quantities (reconstruction, singular values, eigenvalue multiset, solution). phase_sync itself is checked for idempotence and value preservation. Seeded random exploration over 5 symmetries. Later additions: half of the program steps drawn from the full operation table, derived-then-in-place independence, one-element arrays and array / array division, partners of the other class family, copy.copy / deepcopy / pickle.",
    "technique": "runtime monitoring: differential twin execution (lazy vs independently synchronised copy), lock-step programs",
    "rule": (
        "one evaluation = one operation issued on both the lazy array and its harness-synchronised twin, results compared. Sign tables are reached only through public ops "
        "(transpose, phase_flip, phase_transpose, phase_global, conj). Streams: 'single' (one op from the table), 'programs' (<=20 steps in lock-step, compared after every step). "
        "Non-trivial = the operand has >=1 pending -1 on a stored block; distinct by (op, structure signature incl. sign-table keys)."
    ),
    "anchors": [
        "fermionic_core.FermionicArray.phase_sync",
        "fermionic_core.FermionicArray._binary_blockwise_op",
        "fermionic_core.FermionicArray.fuse",
        "fermionic_core.FermionicArray.unfuse",
        "fermionic_core.FermionicArray.to_dense",
        "linalg.eigh_fermionic",
        "linalg.solve_fermionic",
    ],
    "floors": {
        "quick": {"evaluations": 6000, "distinct_nontrivial": 1500, "tables": {"pending/yes": 3000, "stream/programs": 1500, "op": 5000, "stream/derived": 5000, "op/derived:sync_charges": 300, "op/derived:align_axes": 200, "op/derived:qr": 100}},
        "thorough": {"evaluations": 250000, "distinct_nontrivial": 40000, "tables": {"pending/yes": 100000, "stream/programs": 60000}},
    },
    "wall": {"quick": 900, "thorough": 1500},
}


def twin(sr, x):
    """Independently synchronised copy: same class / indices / charge / labels, blocks
    multiplied by their pending sign, empty sign table."""
    ph = phases_of(x)
    blocks = {s: (np.array(b, copy=True) * ph.get(s, 1)) for s, b in x.blocks.items()}
    kw = dict(indices=x.indices, charge=x.charge, blocks=blocks, oddpos=list(x.oddpos))
    if not type(x).static_symmetry:
        kw["symmetry"] = x.symmetry
    return type(x)(**kw)


def has_pending(x):
    ph = phases_of(x)
    return any(v == -1 and s in x.blocks for s, v in ph.items())


def same_value(r1, r2, tol=None):
    """None or description of the difference between two results."""
    if isinstance(r1, (tuple, list)) and isinstance(r2, (tuple, list)):
        if len(r1) != len(r2):
            return "tuple lengths differ"
        for k, (a, b) in enumerate(zip(r1, r2)):
            m = same_value(a, b, tol)
            if m:
                return f"[{k}] {m}"
        return None
    if is_array(r1) and is_array(r2):
        if tuple(index_sig(i) for i in r1.indices) != tuple(index_sig(i) for i in r2.indices):
            return "indices differ"
        if r1.charge != r2.charge or type(r1) is not type(r2):
            return "charge/class differ"
        if labels_of(r1) != labels_of(r2):
            return f"labels {labels_of(r1)} vs {labels_of(r2)}"
        d1, d2 = embed(r1), embed(r2)
        if tol is None:
            if not np.array_equal(d1, d2):
                return f"dense values differ (max|diff| {cmp.maxdiff(d1, d2)})"
        elif not np.allclose(d1, d2, atol=tol, rtol=0):
            return f"dense values differ (max|diff| {cmp.maxdiff(d1, d2)})"
        return None
    if is_vector(r1) and is_vector(r2):
        if set(r1.blocks) != set(r2.blocks):
            return "vector charges differ"
        for k in r1.blocks:
            a, b = np.asarray(r1.blocks[k]), np.asarray(r2.blocks[k])
            if a.shape != b.shape or not (np.array_equal(a, b) if tol is None else np.allclose(a, b, atol=tol, rtol=0)):
                return f"vector block {k!r} differs"
        return None
    if is_array(r1) or is_array(r2) or is_vector(r1) or is_vector(r2):
        return f"types differ: {type(r1).__name__} vs {type(r2).__name__}"
    a, b = np.asarray(r1), np.asarray(r2)
    if a.shape != b.shape:
        return f"shapes differ {a.shape} {b.shape}"
    if tol is None:
        return None if np.array_equal(a, b) else f"values differ: {r1!r} vs {r2!r}"
    return None if np.allclose(a, b, atol=tol, rtol=0) else f"values differ: {r1!r} vs {r2!r}"


# ------------------------------------------------------------------------------ op table
def build_op(ctx, rng, x, allow_rank_change=True):
    """-> (name, fn(x) -> result, tol) for an op applicable to x (x is only inspected for
    structure, which lazy and eager copies share)."""
    import autoray as ar

    sr = ctx.sr
    sym = R.symname(x)
    nd = x.ndim
    names = ["scalar", "neg", "norm", "sum", "to_dense", "phase_sync", "copyadd", "phase_global"]
    if nd >= 1:
        names += ["transpose", "conj", "dagger", "phase_flip", "phase_transpose", "contract_self", "abs", "max", "min", "add_partner", "mul_partner", "allclose", "sqrtabs", "clip"]
    if nd >= 2 and allow_rank_change:
        names += ["fuse", "fuse_unfuse", "reshape", "tensordot_partner", "expand_dims"]
    if nd == 2:
        names += ["qr", "svd", "svd_truncated", "matmul_partner"]
        ixl, ixr = x.indices
        if bool(ixl.dual) != bool(ixr.dual) and dict(ixl.chargemap) == dict(ixr.chargemap):
            names += ["trace", "einsum_trace"]
            if x.charge == R.identity(sym):
                names += ["solve"]
                ph = phases_of(x)
                if all(s_[0] == s_[1] and np.allclose(np.asarray(b), np.asarray(b).conj().T) for s_, b in x.blocks.items()):
                    names += ["eigh"] * 4
    name = rng.choice(names)
    tol = None
    if name == "scalar":
        s = rng.choice([2.0, -1.0, 0.5])
        return name, (lambda a: (a * s, s * a, a / s)), None
    if name == "neg":
        return name, (lambda a: -a), None
    if name == "norm":
        return name, (lambda a: a.norm()), 1e-12
    if name in ("sum", "max", "min"):
        via = rng.choice(["method", "function", "autoray"])
        return name, {"method": lambda a: getattr(a, name)(), "function": lambda a: getattr(sr, name)(a), "autoray": lambda a: ar.do(name, a)}[via], None
    if name == "abs":
        return name, (lambda a: a.abs()), None
    if name == "sqrtabs":
        return name, (lambda a: (a * a).sqrt() if False else sr.sqrt(a.abs())), None
    if name == "clip":
        return name, (lambda a: a.clip(-1.0, 2.0)), None
    if name == "to_dense":
        return name, (lambda a: a.to_dense()), None
    if name == "phase_sync":
        return name, (lambda a: a.phase_sync()), None
    if name == "phase_global":
        return name, (lambda a: a.phase_global()), None
    if name == "copyadd":
        return name, (lambda a: a + a), None
    if name == "transpose":
        perm = tuple(rng.sample(range(nd), nd))
        return name, (lambda a: a.transpose(perm)), None
    if name == "conj":
        pp, pd = rng.random() < 0.8, rng.random() < 0.5
        return name, (lambda a: a.conj(phase_permutation=pp, phase_dual=pd)), None
    if name == "dagger":
        pd = rng.random() < 0.5
        return name, (lambda a: a.dagger(phase_dual=pd)), None
    if name == "phase_flip":
        axs = rng.sample(range(nd), rng.randint(1, nd))
        return name, (lambda a: a.phase_flip(*axs)), None
    if name == "phase_transpose":
        perm = tuple(rng.sample(range(nd), nd))
        return name, (lambda a: a.phase_transpose(perm)), None
    if name == "contract_self":
        mode = rng.choice(["fused", "blockwise", "auto"])
        pd = rng.random() < 0.5
        return name, (lambda a: sr.tensordot(a.conj(phase_dual=pd), a, axes=nd, mode=mode)), None
    if name in ("add_partner", "mul_partner", "allclose"):
        seed = rng.getrandbits(40)
        import random as _r

        mixclass = sym != "Z4" and rng.random() < 0.2  # partner of the OTHER class family (static <-> generic), same symmetry

        def partner(a):
            r2 = _r.Random(seed)
            st_ = bool(type(a).static_symmetry) != mixclass
            return gen.make_array(sr, r2, sym, a.indices, charge=a.charge, fermionic=True, kind="static" if st_ else "generic_str", values=gen.Values(r2, "int"), label=[o for o in a.oddpos] or None, nphase=2, sparsity=0.3)

        if name == "add_partner":
            return name, (lambda a: (a + partner(a), partner(a) + a)), None
        if name == "mul_partner":
            return name, (lambda a: (a * partner(a), partner(a) * a)), None
        return name, (lambda a: (a.allclose(partner(a)), a.allclose(a.phase_sync()), a.allclose(twin(sr, a)), partner(a).allclose(a))), None
    if name in ("fuse", "fuse_unfuse"):
        from checks.c05 import groupings

        gs = rng.choice(groupings(rng, nd, 4))
        if name == "fuse":
            via = rng.choice(["method", "function"])
            return name, ((lambda a: a.fuse(*gs)) if via == "method" else (lambda a: sr.fuse(a, *gs))), None
        return name, (lambda a: a.fuse(*gs).unfuse_all()), None
    if name == "reshape":
        from checks.c07 import reachable_targets

        shape = tuple(ix.size_total for ix in x.indices)
        tg = [t for t in sorted(reachable_targets(shape)) if t != ()]
        t = rng.choice(tg)
        return name, (lambda a: a.reshape(t)), None
    if name == "expand_dims":
        ax = rng.randint(0, nd)
        return name, (lambda a: a.expand_dims(ax)), None
    if name in ("tensordot_partner", "matmul_partner"):
        k = 1 if name == "matmul_partner" else rng.randint(1, nd)
        axa = rng.sample(range(nd), k) if name != "matmul_partner" else [1]
        seed = rng.getrandbits(40)
        plabel = rng.randint(10**6, 10**8)
        mode = rng.choice(["fused", "blockwise", "auto"])
        left = rng.random() < 0.5 and name != "matmul_partner"
        import random as _r

        mixclass2 = sym != "Z4" and rng.random() < 0.2

        def partner(a):
            r2 = _r.Random(seed)
            ib = [gen.conj_index(sr, a.indices[i]) for i in axa] + [gen.rand_index(sr, r2, sym, maxd=2) for _ in range(r2.randint(0, 1 if name == "matmul_partner" else 2))]
            st_ = bool(type(a).static_symmetry) != mixclass2
            return gen.make_array(sr, r2, sym, ib, fermionic=True, kind="static" if st_ else "generic_str", values=gen.Values(r2, "int"), label=plabel, nphase=2, sparsity=0.2)

        if name == "matmul_partner":
            return name, (lambda a: a @ partner(a)), None
        if left:
            return name, (lambda a: sr.tensordot(partner(a), a, axes=(list(range(k)), axa), mode=mode, preserve_array=True)), None
        return name, (lambda a: sr.tensordot(a, partner(a), axes=(axa, list(range(k))), mode=mode, preserve_array=True)), None
    if name == "trace":
        return name, (lambda a: (a.trace(), sr.trace(a))), None
    if name == "einsum_trace":
        return name, (lambda a: a.einsum("aa->")), None
    # ---- decompositions: gauge-invariant quantities
    if name == "qr":
        stab = rng.random() < 0.5

        def f(a):
            q, r = sr.linalg.qr(a, stabilized=stab)
            return embed(sr.tensordot(q, r, 1, preserve_array=True), a.indices)

        return name, f, 1e-9
    if name == "svd":

        def f(a):
            u, s, vh = sr.linalg.svd(a)
            rec = sr.tensordot(sr.multiply_diagonal(u, s, 1), vh, 1, preserve_array=True)
            return embed(rec, a.indices), np.sort(np.concatenate([np.asarray(b) for b in s.blocks.values()]))

        return name, f, 1e-9
    if name == "svd_truncated":
        mb = rng.randint(1, 4)

        def f(a):
            u, s, vh = sr.linalg.svd_truncated(a, max_bond=mb, absorb=None)
            rec = sr.tensordot(sr.multiply_diagonal(u, s, 1), vh, 1, preserve_array=True)
            kept = np.sort(np.concatenate([np.asarray(b) for b in s.blocks.values()]))
            # a bond limit that cuts through a cluster of (numerically) equal singular values
            # keeps an arbitrary vector of a degenerate subspace: the truncated product is not
            # unique then (x and -x need not choose alike); only the kept values are compared
            # (without a cutoff the library shares the bond limit out among the charge sectors,
            # so the cut is looked at sector by sector)
            full = {c_: np.sort(np.asarray(b))[::-1] for c_, b in sr.linalg.svd(a)[1].blocks.items()}
            top = max((float(v[0]) for v in full.values() if len(v)), default=0.0)
            for c_, v in full.items():
                k_ = len(np.asarray(s.blocks[c_])) if c_ in s.blocks else 0
                if 0 < k_ < len(v) and v[k_ - 1] - v[k_] <= 1e-9 * top:
                    ctx.count("inconclusive", "svd_truncated-cut-inside-degenerate-cluster")
                    return np.zeros(1), kept
            return embed(rec, a.indices), kept

        return name, f, 1e-9
    if name == "eigh":

        def f(a):
            el, ev = sr.linalg.eigh(a)
            rec = sr.tensordot(sr.multiply_diagonal(ev, el, 1), ev.dagger(), 1, preserve_array=True)
            return embed(rec, a.indices), np.sort(np.abs(np.concatenate([np.asarray(b) for b in el.blocks.values()])))

        return name, f, 1e-8
    if name == "solve":
        seed = rng.getrandbits(40)
        import random as _r

        def f(a):
            r2 = _r.Random(seed)
            # make it well conditioned: a + 10 * identity-like diagonal is not available generically; use a as is if invertible
            b = gen.make_array(sr, r2, sym, [a.indices[0]], fermionic=True, kind="static" if type(a).static_symmetry else "generic_str", values=gen.Values(r2, "int"), label=424243, nphase=1, sparsity=0.0)
            sq = all(np.asarray(blk).shape[0] == np.asarray(blk).shape[1] and abs(np.linalg.det(np.asarray(blk))) > 1e-6 for blk in a.blocks.values())
            if not sq or not b.blocks:
                return "skip"
            xs = sr.linalg.solve(a, b)
            return embed(xs)

        return name, f, 1e-8
    raise KeyError(name)


def issue(ctx, name, f, tol, L, E, wit, stream):
    """Run op on lazy L and eager E; compare. Returns (resL, resE) or None."""
    oL = ctx.call(f, L)
    oE = ctx.call(f, E)
    ctx.evaluated()
    ctx.count("op", name)
    ctx.count("stream", stream)
    pend = has_pending(L)
    ctx.count("pending", "yes" if pend else "no")
    w = dict(wit, op=name)
    if not oL.ok or not oE.ok:
        if not oL.ok and not oE.ok and type(oL.exc) is type(oE.exc):
            ctx.count("both-raise", f"{name}:{oL.excname}")
            return None
        if not L.blocks:
            ctx.count("refusal", "degenerate-empty-operand")
            return None
        ctx.violation(f"{name}-raises-on-one-copy", f"{name}: lazy -> {repr(oL.exc) if not oL.ok else 'ok'}, synchronised -> {repr(oE.exc) if not oE.ok else 'ok'}", w)
        return None
    if isinstance(oL.value, str) or isinstance(oE.value, str):
        return None
    m = same_value(oL.value, oE.value, tol)
    if m:
        mech = f"pending-signs-observable:{name}"
        ctx.violation(mech, f"{name}: result on the array with pending signs differs from the result on its synchronised copy: {m}", w)
        return None
    if pend:
        ctx.nontrivial((name, struct_sig(L), tuple(sorted(map(repr, phases_of(L))))))
        ctx.sample({"op": name, "x": describe(L)}, limit=3)
    return oL.value, oE.value


def make_lazy(ctx, rng, nd=None, matrix=False):
    sr = ctx.sr
    sym = gen.pick_sym(rng)
    vals = gen.Values(rng, rng.choice(["int", "int", "gauss"]), rng.choice(["float64", "float64", "complex128"]))
    if matrix and rng.random() < 0.3:
        # block-hermitian matrix that carries pending signs on its odd-odd blocks
        a = gen.rand_matrix(sr, rng, sym, True, values=vals, square=True, sparsity=rng.choice([0.0, 0.3]), nphase=0, maxd=3)
        x = (a + a.dagger()).phase_transpose((1, 0))
        if rng.random() < 0.5:
            x.phase_global(inplace=True)
        return x, vals.mode == "int"
    if matrix:
        if rng.random() < 0.5:
            x = gen.rand_matrix(sr, rng, sym, True, values=vals, square=True, sparsity=rng.choice([0.0, 0.3]), nphase=0, maxd=3)
        else:
            x = gen.rand_matrix(sr, rng, sym, True, values=vals, sparsity=rng.choice([0.0, 0.3]), nphase=0, maxd=3)
    elif nd is None and rng.random() < 0.1:
        # one stored element: rank 0..3 with every axis of size one (array / array is defined)
        idx = [sr.BlockIndex({rng.choice(gen.POOL[sym]): 1}, dual=rng.random() < 0.5) for _ in range(rng.randint(0, 3))]
        x = gen.make_array(sr, rng, sym, idx, fermionic=True, values=vals, sparsity=0.0, nphase=0, label=rng.randint(1, 99))
    else:
        x = gen.rand_array(sr, rng, sym, ndim=nd, fermionic=True, maxnd=4, values=vals, maxd=2, nphase=0, many_legs_p=0.04 if nd is None else 0.0)
        if x.ndim >= 6:
            ctx.count("feature", "six-or-more-legs")
    # reach a sign table through public ops only
    for _ in range(rng.randint(1, 4)):
        k = rng.randint(0, 4)
        if k == 0 and x.ndim:
            x.phase_flip(*rng.sample(range(x.ndim), rng.randint(1, x.ndim)), inplace=True)
        elif k == 1 and x.ndim:
            x.phase_transpose(tuple(rng.sample(range(x.ndim), x.ndim)), inplace=True)
        elif k == 2:
            x.phase_global(inplace=True)
        elif k == 3 and x.ndim and not matrix:
            x = x.transpose(tuple(rng.sample(range(x.ndim), x.ndim)))
        elif k == 4 and not matrix:
            x = x.conj().conj()
    if x.ndim and len(x.blocks) >= 2 and not matrix and rng.random() < 0.15:
        # blocks of one charge removed by a public operation that keeps the sign table: sign
        # entries stay behind for sectors that have no block any more (a later sum may put a
        # block there again)
        x2 = gen.dormant_signs(sr, rng, x)
        if x2 is not x and x2.blocks and any(k_ not in x2.blocks for k_ in phases_of(x2)):
            x = x2
            ctx.count("feature", "sign-entries-for-removed-blocks")
    return x, vals.mode == "int"


def case_single(ctx, rng):
    sr = ctx.sr
    x, exact = make_lazy(ctx, rng, matrix=rng.random() < 0.35)
    e = twin(sr, x)
    wit = {"x": describe(x, True)}
    # the twin must be the same tensor (harness sanity, not a library property)
    assert np.array_equal(embed(x), embed(e))
    for _ in range(3):
        name, f, tol = build_op(ctx, rng, x)
        if tol is None and not exact:
            tol = 1e-10
        issue(ctx, name, f, tol, x, e, wit, "single")
    # phase_sync: idempotent, value preserving, leaves nothing pending
    o = ctx.call(lambda: x.phase_sync())
    ctx.evaluated()
    ctx.count("op", "phase_sync-laws")
    if not o.ok:
        ctx.violation("phase_sync-raises", repr(o.exc), wit)
        return
    s1 = o.value
    if any(v == -1 and sec in s1.blocks for sec, v in phases_of(s1).items()):
        ctx.violation("phase_sync-leaves-pending", "pending signs on stored blocks remain after phase_sync", wit)
    if not np.array_equal(embed(s1), embed(x)):
        ctx.violation("phase_sync-changes-value", "dense value changed by phase_sync", wit)
    o2 = ctx.call(lambda: s1.phase_sync())
    if o2.ok and not all(np.array_equal(np.asarray(o2.value.blocks[k]), np.asarray(s1.blocks[k])) for k in s1.blocks):
        ctx.violation("phase_sync-not-idempotent", "second phase_sync changed blocks", wit)
    if not np.array_equal(embed(x), embed(e)):
        ctx.violation("operand-changed", "the lazy operand's value changed while operating on it", wit)


def case_program(ctx, rng):
    """Lock-step programs: the lazy pipeline never synchronises, the eager pipeline is
    re-synchronised by the harness after every step; compared after each step. Steps come
    from the dedicated table above and from the full operation table of symv/program.py."""
    from symv.program import Program, deep_twin

    sr = ctx.sr
    L, exact = make_lazy(ctx, rng)
    E = twin(sr, L)
    wit = {"x0": describe(L, True), "steps": []}
    nsteps = rng.randint(4, 20)
    prog = None
    for step in range(nsteps):
        if not is_array(L) or L.ndim > 5 or not L.blocks:
            break
        use_table = rng.random() < 0.5
        if use_table:
            if prog is None:
                dtype = str(next(iter(L.blocks.values())).dtype)
                prog = Program(ctx, rng, sym=R.symname(L), fermionic=True, dtype=dtype, values="int" if exact else "gauss", kind="static" if type(L).static_symmetry else "generic_str")
            prog.pool = [L]
            st = prog.pick()
            if st is None:
                break
            name, operands, f0, info = st
            if name.startswith(GAUGE) or not any(v is L for v in operands):
                continue
            pos = [k for k, v in enumerate(operands) if v is L]
            others = list(operands)
            inpl = bool(info.get("inplace"))

            def f(a, f0=f0, others=others, pos=pos, inpl=inpl):
                if inpl:
                    a = deep_twin(a)
                args = list(others)
                for k in pos:
                    args[k] = a
                return f0(*args)

            tol = None if exact else 1e-9
            name = "table:" + name
        else:
            name, f, tol = build_op(ctx, rng, L)
            if tol is None and not exact:
                tol = 1e-9
        wit["steps"].append(name)
        r = issue(ctx, name, f, tol, L, E, wit, "programs")
        if r is None:
            break
        rl, re_ = r
        # carry on with array-valued results only
        if isinstance(rl, tuple):
            cand = [(a, b) for a, b in zip(rl, re_) if is_array(a) and getattr(a, "fermionic", False)]
            if not cand:
                continue
            rl, re_ = cand[0]
        if not (is_array(rl) and getattr(rl, "fermionic", False)):
            continue
        if not rl.blocks or any(np.asarray(b).dtype.kind == "b" for b in rl.blocks.values()):
            break
        L, E = rl, twin(sr, re_)
        if max((ix.size_total for ix in L.indices), default=1) > 64:
            break


GAUGE = ("qr", "qr_stab", "svd", "svd_truncated", "eigh", "construct")


def case_table(ctx, rng):
    """The full operation table of symv/program.py issued on the lazy array and on its
    synchronised twin (same fresh partners, same arguments)."""
    from symv.program import Program, deep_twin

    sr = ctx.sr
    L, exact = make_lazy(ctx, rng, matrix=rng.random() < 0.25)
    if not L.blocks:
        return
    E = twin(sr, L)
    dtype = str(next(iter(L.blocks.values())).dtype)
    prog = Program(ctx, rng, sym=R.symname(L), fermionic=True, dtype=dtype, values="int" if exact else "gauss", kind="static" if type(L).static_symmetry else "generic_str")
    wit = {"x": describe(L, True)}
    for _ in range(6):
        prog.pool = [L]
        st = prog.pick()
        if st is None:
            return
        name, operands, f, info = st
        if name.startswith(GAUGE) or not any(v is L for v in operands):
            continue
        if info.get("inplace"):
            Lc, Ec = deep_twin(L), deep_twin(E)
        else:
            Lc, Ec = L, E
        opsL = [Lc if v is L else v for v in operands]
        opsE = [Ec if v is L else v for v in operands]
        tol = None if exact else 1e-9
        if name in ("norm",):
            tol = 1e-12 if exact else 1e-9
        oL, oE = ctx.call(f, *opsL), ctx.call(f, *opsE)
        ctx.evaluated()
        ctx.count("op", "table:" + name)
        ctx.count("stream", "table")
        pend = has_pending(L)
        ctx.count("pending", "yes" if pend else "no")
        w = dict(wit, op=name)
        if oL.ok != oE.ok:
            ctx.violation(f"{name}-raises-on-one-copy", f"{name}: lazy -> {repr(oL.exc) if not oL.ok else 'ok'}, synchronised -> {repr(oE.exc) if not oE.ok else 'ok'}", w)
            continue
        if not oL.ok:
            ctx.count("both-raise", f"{name}:{oL.excname}")
            continue
        m = same_value(oL.value, oE.value, tol)
        if m:
            ctx.violation(f"pending-signs-observable:{name}", f"{name}: result on the array with pending signs differs from the result on its synchronised copy: {m}", w)
        elif pend:
            ctx.nontrivial(("table", name, struct_sig(L), tuple(sorted(map(repr, phases_of(L))))))


def _inplace_sign_op(rng, y):
    """An in-place operation on y that touches only y's own pending signs / blocks."""
    nd = y.ndim
    ops = [("phase_sync", lambda a: a.phase_sync(inplace=True)), ("phase_global", lambda a: a.phase_global(inplace=True))]
    if nd:
        perm = tuple(rng.sample(range(nd), nd))
        axs = rng.sample(range(nd), rng.randint(1, nd))
        ops += [
            ("phase_transpose", lambda a: a.phase_transpose(perm, inplace=True)),
            ("phase_flip", lambda a: a.phase_flip(*axs, inplace=True)),
            ("transpose", lambda a: a.transpose(perm, inplace=True)),
            ("conj", lambda a: a.conj(inplace=True)),
        ]
    if y.blocks:
        sec = rng.choice(sorted(y.blocks, key=repr))
        ops.append(("phase_sector", lambda a: a.phase_sector(sec, inplace=True)))
    return rng.choice(ops)


def case_derived(ctx, rng):
    """Signs are applied exactly once *per array*: an array derived from a lazy one (by any
    out-of-place operation) and its source are independent afterwards - an in-place sign
    operation on one of them never changes the value of the other."""
    sr = ctx.sr
    x, exact = make_lazy(ctx, rng, matrix=rng.random() < 0.4)
    if not x.blocks:
        return
    wit = {"x": describe(x, True)}
    r = rng.random()
    if r < 0.45:
        # derivations that keep the sector layout (where sharing a sign table would be possible)
        cands = [("sync_charges", lambda a: a.sync_charges()), ("copy", lambda a: a.copy()), ("drop_missing", lambda a: a.drop_missing_blocks() if hasattr(a, "drop_missing_blocks") else a.copy())]
        if x.ndim:
            k = rng.randrange(x.ndim)
            other = x.conj()
            cands += [("align_axes", lambda a: a.align_axes(other, ((k,), (k,)))), ("align_axes-second", lambda a: other.align_axes(a, ((k,), (k,))))]
        if x.ndim == 2:
            cands += [("qr", lambda a: sr.linalg.qr(a)), ("svd", lambda a: sr.linalg.svd(a)), ("svd_truncated", lambda a: sr.linalg.svd_truncated(a, max_bond=rng.randint(1, 4)))]
        name, f = rng.choice(cands)
    else:
        name, f, _ = build_op(ctx, rng, x)
    o = ctx.call(f, x)
    if not o.ok:
        ctx.count("refusal", f"derive:{name}")
        return
    outs = [v for v in (o.value if isinstance(o.value, (tuple, list)) else [o.value]) if is_array(v) and getattr(v, "fermionic", False) and v is not x]
    if not outs:
        return
    y = rng.choice(outs)
    vx, vy = embed(x), embed(y)
    ctx.evaluated()
    ctx.count("stream", "derived")
    ctx.count("op", "derived:" + name)
    ctx.count("pending", "yes" if has_pending(x) else "no")
    target, other, v_other, who = (y, x, vx, "source") if rng.random() < 0.6 else (x, y, vy, "derived array")
    iname, g = _inplace_sign_op(rng, target)
    wit.update(derivation=name, inplace_op=iname, applied_to="derived array" if target is y else "source")
    o2 = ctx.call(g, target)
    if not o2.ok:
        ctx.count("refusal", f"inplace:{iname}")
        return
    ctx.count("inplace", iname)
    try:
        v_after = embed(other)
    except Exception as e:
        ctx.violation("derived-array-shares-sign-table", f"after {iname}(inplace) on the other array the {who} cannot be densified: {e!r}", wit)
        return
    if v_after.shape != v_other.shape or not np.array_equal(v_after, v_other):
        ctx.violation("derived-array-shares-sign-table", f"y = {name}(x); {iname}(inplace=True) on the {'derived array' if target is y else 'source'} changed the value of the {who} (its pending signs are now applied {'zero or two' } times)", wit)
        return
    if has_pending(x) or has_pending(y):
        ctx.nontrivial(("derived", name, iname, target is y, struct_sig(x)))


def run(ctx):
    for _, rng in ctx.cases("table", ctx.budget(20000, 400000)):
        ctx.run_case(case_table, ctx, rng)
    for _, rng in ctx.cases("single", ctx.budget(90000, 1500000)):
        ctx.run_case(case_single, ctx, rng)
    for _, rng in ctx.cases("programs", ctx.budget(18000, 300000)):
        ctx.run_case(case_program, ctx, rng)
    for _, rng in ctx.cases("derived", ctx.budget(30000, 500000)):
        ctx.run_case(case_derived, ctx, rng)
