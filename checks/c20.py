"""C20 — element type and precision are preserved."""
import numpy as np

from symv import gen
from symv import refsym as R
from symv.dense import describe, embed, is_array, is_fermionic, is_vector, struct_sig
from symv.program import Program, deep_twin

META = {
    "level": "exploration",
    "level_text": "A dtype-rule monitor inspects every block of every value returned by random API programs and by a dedicated zero-creation stream run in float32, float64, complex64 and complex128: result blocks have the numpy result type of the operand blocks (real counterpart for singular values, eigenvalues, abs, norm), including zero blocks created by fuse (insert and concat), to_dense, fill_missing_blocks and the fused contraction path; numpy's ComplexWarning is an error inside workers; and each array result is compared with the same step issued on a float64/complex128 twin within the precision of the narrower type, so that a discarded imaginary part or a silent up/down-cast shows in value as well as in dtype. Later additions: per-step operand dtypes, mixed-dtype operands and blocks judged against double twins, contractions over >= 32 partial terms with operands of different types, 32-48 wide blocks incl. real-valued complex data, sparse Hermitian eigh, ill-conditioned solves with generic right-hand sides. Round 9: 32-48 wide blocks with identically zero rows / columns; user-defined symmetries. Round 10: set_params with blocks of every other element type (stored as given; untouched blocks keep their type).",
    "technique": "runtime monitoring: dtype-rule oracle on every returned block + high-precision twin differential",
    "rule": (
        "one evaluation = one returned value whose blocks were checked against the dtype rule (and, for arrays, against the high-precision twin). "
        "Non-trivial = the operation created >=1 zero block or went through a decomposition, with dtype != float64; distinct by (operation, dtype, structure signature)."
    ),
    "anchors": ["abelian_core._fuse_blocks_via_insert", "abelian_core._fuse_blocks_via_concat", "abelian_core.AbelianArray.to_dense", "abelian_core.AbelianArray.fill_missing_blocks", "abelian_core._tensordot_via_fused", "linalg._get_qr_fn", "utils.get_random_fill_fn"],
    "floors": {
        "quick": {"evaluations": 20000, "distinct_nontrivial": 3000, "tables": {"dtype/float32": 3000, "dtype/complex64": 3000, "dtype/complex128": 3000, "zero-creation/fuse-insert": 300, "zero-creation/fuse-concat": 300, "zero-creation/to_dense": 300, "zero-creation/fill_missing_blocks": 300, "zero-creation/fused-contraction": 200, "twin-compared": 8000, "mixed-contraction/terms>=32": 400, "twin-compared/mixed-blocks": 10000, "large/complex64:zero-imaginary-part": 60, "large/complex128:zero-imaginary-part": 60}},
        "thorough": {"evaluations": 500000, "distinct_nontrivial": 60000},
    },
    "wall": {"quick": 900, "thorough": 1700},
}

REAL = {"float32": "float32", "float64": "float64", "complex64": "float32", "complex128": "float64"}
HI = {"float32": "float64", "float64": "float64", "complex64": "complex128", "complex128": "complex128"}
EPS = {"float32": 2e-5, "float64": 1e-11, "complex64": 2e-5, "complex128": 1e-11}


def block_dtypes(v):
    if is_array(v) or is_vector(v):
        return {str(np.asarray(b).dtype) for b in v.blocks.values()}
    if isinstance(v, np.ndarray) or isinstance(v, np.generic):
        return {str(v.dtype)}
    return set()


def judge_dtype(ctx, name, rule, res, dt, wit):
    """-> True if fine."""
    want_same, want_real = dt, REAL[dt]

    def bad(what, got, want):
        ctx.violation(f"dtype-changed:{name.split(':')[0]}", f"{name} on {dt} data: {what} has dtype {sorted(got)} instead of {want}", wit)
        return False

    if rule is None:
        return True
    if rule in ("same", "same-as-program", "same-or-scalar", "ndarray", "scalar"):
        vals = res if isinstance(res, (tuple, list)) else [res]
        for k, v in enumerate(vals):
            got = block_dtypes(v)
            if got and got != {want_same}:
                return bad(f"result[{k}]" if len(vals) > 1 else "result", got, want_same)
        return True
    if rule in ("real", "scalar-real"):
        got = block_dtypes(res)
        if got and got != {want_real}:
            return bad("result", got, want_real)
        return True
    if rule == "bool":
        got = block_dtypes(res)
        if got and got != {"bool"}:
            return bad("result", got, "bool")
        return True
    if rule == "svd":
        a, s, b = res if len(res) == 3 else (res[1], res[0], None)  # eigh returns (values, vectors)
        if len(res) == 2:
            s, a = res
            b = None
        for nm, v, want in (("left factor", a, want_same), ("values", s, want_real), ("right factor", b, want_same)):
            if v is None:
                continue
            got = block_dtypes(v)
            if got and got != {want}:
                return bad(nm, got, want)
        return True
    return True


def twin_compare(ctx, name, f, operands, res, dt, wit):
    """Issue the same step on float64/complex128 twins and compare array results."""
    if not is_array(res) or dt == HI[dt] and False:
        return
    hi = HI[dt]
    tw = [deep_twin(v, dtype=hi) if (is_array(v) or is_vector(v)) else v for v in operands]
    o = ctx.call(f, *tw)
    if not o.ok or not is_array(o.value):
        return
    try:
        a, b = embed(res), embed(o.value, res.indices)
    except Exception:
        return
    ctx.count("twin-compared", dt)
    scale = max(1.0, float(np.abs(b).max(initial=0)))
    if not np.allclose(a, b, atol=EPS[dt] * scale * 50, rtol=0):
        ctx.violation(f"precision-lost:{name.split(':')[0]}", f"{name} on {dt} data differs from the same operation on {hi} data by {float(np.abs(a - b).max())} (scale {scale})", wit)


def run_program(ctx, rng):
    dt = rng.choice(["float32", "complex64", "complex128", "float64", "float32", "complex64"])
    prog = Program(ctx, rng, dtype=dt, values=rng.choice(["int", "gauss"]))
    for _ in range(rng.randint(2, 4)):
        prog.pool.append(prog.fresh(sparsity=rng.choice([0.3, 0.5, 0.0])))
    trace = []
    prog_dt = dt
    for step in range(rng.randint(10, 30)):
        dt = prog_dt
        st = prog.pick()
        if st is None:
            break
        name, operands, f, info = st
        trace.append(name)
        # twins must be made BEFORE an in-place step consumes the operand
        pre = [deep_twin(v) if (is_array(v) or is_vector(v)) else v for v in operands] if info.get("inplace") else None
        ins = set()
        for v in operands:
            ins |= block_dtypes(v)
        dt = str(np.result_type(*[np.dtype(d) for d in ins])) if ins else prog_dt
        if dt not in REAL or len(ins) > 1:
            # mixed-dtype operands (e.g. abs(x) + y, real array x complex vector): block dtypes of
            # the result are not uniform by design, so the dtype rule is not applied - but an
            # imaginary part must still never be discarded: ComplexWarning is an error, and the
            # value must agree with the same step on complex128 / float64 twins
            pre_m = [deep_twin(v) if (is_array(v) or is_vector(v)) else v for v in operands] if info.get("inplace") else None
            o = ctx.call(f, *operands)
            ctx.count("skipped", "dtype-rule-on-mixed-dtype-operands")
            wit = {"op": name, "dtype": sorted(ins), "trace": trace[-8:], "operands": [describe(v) for v in operands if is_array(v)]}
            if not o.ok:
                if isinstance(o.exc, Warning):
                    ctx.violation(f"complex-warning:{name.split(':')[0]}", f"{name} on operands of dtypes {sorted(ins)} emitted {o.exc!r} (imaginary part discarded)", wit)
            else:
                if dt in REAL and is_array(o.value) and not name.startswith(("construct", "qr", "svd")):
                    ctx.evaluated()
                    ctx.count("dtype", "mixed")
                    twin_compare(ctx, name, f, pre_m if pre_m is not None else operands, o.value, dt, wit)
                prog.admit(o.value)
            dt = prog_dt
            continue
        o = ctx.call(f, *operands)
        wit = {"op": name, "dtype": dt, "trace": trace[-8:], "operands": [describe(v) for v in operands if is_array(v)]}
        if not o.ok:
            prog.failed(operands, info)
            if isinstance(o.exc, Warning):
                ctx.violation(f"complex-warning:{name.split(':')[0]}", f"{name} on {dt} data emitted {o.exc!r} (imaginary part discarded)", wit)
            continue
        res = o.value
        ctx.evaluated()
        ctx.count("dtype", dt)
        ctx.count("op", name)
        ok = judge_dtype(ctx, name, info.get("dtype"), res, dt, wit)
        if ok and info.get("dtype") in ("same", "same-or-scalar") and not name.startswith(("construct", "qr", "svd")):
            twin_compare(ctx, name, f, pre if pre is not None else operands, res, dt, wit)
        created = classify_zero_creation(name, operands, res, info)
        if created:
            ctx.count("zero-creation", created)
        if ok and dt != "float64" and (created or info.get("dtype") == "svd" or name.startswith("qr")):
            v0 = res[0] if isinstance(res, (tuple, list)) else res
            ctx.nontrivial((name, dt, struct_sig(v0)))
            ctx.sample({"op": name, "dtype": dt, "zero_blocks_created_by": created, "result": describe(v0)}, limit=3)
        prog.admit(res)
        dt = prog_dt


def classify_zero_creation(name, operands, res, info):
    x = operands[0] if operands else None
    if name in ("fuse", "fuse_inplace", "fuse_unfuse", "reshape", "reshape_flat") and is_array(res):
        if any(np.any(np.asarray(b) == 0) for b in res.blocks.values()):
            return "fuse-insert"
    if name == "fuse_concat" and is_array(res) and any(np.any(np.asarray(b) == 0) for b in res.blocks.values()):
        return "fuse-concat"
    if name == "to_dense" and is_array(x) and np.any(np.asarray(res) == 0):
        return "to_dense"
    if name == "fill_missing":
        return "fill_missing_blocks"
    if name.startswith("tensordot") and is_array(res):
        return "fused-contraction" if any(np.any(np.asarray(b) == 0) for b in res.blocks.values()) else None
    return None


def dedicated(ctx, rng):
    """Sparsity patterns that force zero creation, in all four dtypes."""
    sr = ctx.sr
    dt = rng.choice(["float32", "complex64", "complex128", "float64"])
    sym = gen.pick_sym(rng)
    ferm = rng.random() < 0.4
    vals = gen.Values(rng, "gauss", dt)
    idx = [gen.rand_index(sr, rng, sym, maxc=2, maxd=2, p_single=0.0, minc=2) for _ in range(4)]
    x = gen.make_array(sr, rng, sym, idx, fermionic=ferm, values=vals, sparsity=0.5, nphase=1)
    wit = {"dtype": dt, "x": describe(x)}
    xt = deep_twin(x, dtype=HI[dt])
    steps = [
        ("fuse", "fuse-insert", lambda a: a.fuse((0, 1), (2, 3)), "same"),
        ("fuse-single", "fuse-insert", lambda a: a.fuse((2, 0)), "same"),
        ("to_dense", "to_dense", lambda a: a.to_dense(), "ndarray"),
        ("fused-contraction", "fused-contraction", lambda a: sr.tensordot(a, a.conj(), axes=([0, 1], [0, 1]), mode="fused", preserve_array=True), "same"),
        ("reshape", "fuse-insert", lambda a: a.reshape((a.shape[0] * a.shape[1], a.shape[2], a.shape[3])), "same"),
        ("svd-of-fused", None, lambda a: sr.linalg.svd(a.fuse((0, 1), (2, 3))), "svd"),
        ("qr-stabilized-of-fused", None, lambda a: sr.linalg.qr(a.fuse((0, 1), (2, 3)), stabilized=True), "same"),
        ("svd_truncated-of-fused", None, lambda a: sr.linalg.svd_truncated(a.fuse((0, 1), (2, 3)), max_bond=2, absorb=rng.choice([None, 0])), "svd"),
        ("norm", None, lambda a: a.norm(), "scalar-real"),
        ("abs", None, lambda a: a.abs(), "real"),
    ]
    if not ferm:
        steps.append(("fuse-concat", "fuse-concat", lambda a: a.fuse((0, 1), (2, 3), mode="concat"), "same"))
        steps.append(("fuse-concat-single", "fuse-concat", lambda a: a.fuse((1, 3), (2,), mode="concat"), "same"))

    def fill(a):
        b = a.copy()
        b.fill_missing_blocks()
        return b

    steps.append(("fill_missing_blocks", "fill_missing_blocks", fill, "same"))
    for name, zc, f, rule in steps:
        o = ctx.call(f, x)
        ctx.evaluated()
        ctx.count("dtype", dt)
        ctx.count("op", "dedicated:" + name)
        w = dict(wit, op=name)
        if not o.ok:
            if isinstance(o.exc, Warning):
                ctx.violation(f"complex-warning:{name}", f"{name} on {dt} data emitted {o.exc!r}", w)
            else:
                ctx.count("raises", f"{name}:{o.excname}")
            continue
        ok = judge_dtype(ctx, "dedicated:" + name, rule, o.value, dt, w)
        if zc:
            ctx.count("zero-creation", zc)
        if ok and rule == "same" and is_array(o.value):
            twin_compare(ctx, name, f, [x], o.value, dt, w)
        if ok and rule == "ndarray":
            ot = ctx.call(f, xt)
            if ot.ok and not np.allclose(np.asarray(o.value), np.asarray(ot.value), atol=EPS[dt] * 50 * max(1.0, float(np.abs(np.asarray(ot.value)).max(initial=0))), rtol=0):
                ctx.violation(f"precision-lost:{name}", f"{name} on {dt} data differs from the {HI[dt]} twin", w)
        if ok and dt != "float64":
            ctx.nontrivial(("dedicated", name, dt, struct_sig(x)))
    # ---- parameters handed to an array are stored with the element type they come with
    if x.blocks and rng.random() < 0.5:
        for tgt in rng.sample(["float32", "float64", "complex64", "complex128"], 2):
            y = x.copy()
            op_ = ctx.call(lambda: y.get_params())
            if not op_.ok or set(op_.value) != set(x.blocks):
                ctx.violation("get_params", f"get_params() does not return the stored blocks: {op_.exc!r}", wit)
                break
            some = rng.sample(sorted(op_.value, key=repr), rng.randint(1, len(op_.value)))
            with np.errstate(all="ignore"), __import__("warnings").catch_warnings():
                __import__("warnings").simplefilter("ignore")
                params = {s_: np.asarray(op_.value[s_]).astype(tgt) for s_ in some}
            os_ = ctx.call(lambda: y.set_params(params))
            ctx.evaluated()
            ctx.count("dtype", dt)
            ctx.count("op", "dedicated:set_params")
            w = dict(wit, op="set_params", given_dtype=tgt)
            if not os_.ok:
                ctx.violation(f"set_params-raises-{os_.excname}", repr(os_.exc), w)
                break
            bad = [s_ for s_ in some if np.asarray(y.blocks[s_]).dtype != np.dtype(tgt) or not np.array_equal(np.asarray(y.blocks[s_]), params[s_])]
            kept = [s_ for s_ in x.blocks if s_ not in some and (np.asarray(y.blocks[s_]).dtype != np.asarray(x.blocks[s_]).dtype)]
            if bad or kept:
                ctx.violation("dtype-changed:set_params", f"set_params with {tgt} blocks on a {dt} array: stored element types {sorted({str(np.asarray(y.blocks[s_]).dtype) for s_ in some})}; untouched blocks changed type: {bool(kept)}", w)
                break
            if tgt != dt:
                ctx.nontrivial(("set_params", dt, tgt, struct_sig(x)))


def mixed_blocks(ctx, rng):
    """ONE array whose blocks have 2-4 different element types (narrow or wide first): every
    relocating operation must keep every number exactly (compared with the complex128 twin),
    and nothing may discard an imaginary part."""
    sr = ctx.sr
    sym = gen.pick_sym(rng)
    ferm = rng.random() < 0.4
    idx = [gen.rand_index(sr, rng, sym, maxc=2, maxd=2, p_single=0.0, minc=2) for _ in range(rng.choice([3, 4]))]
    x = gen.make_array(sr, rng, sym, idx, fermionic=ferm, values=gen.Values(rng, "unique"), sparsity=rng.choice([0.0, 0.3, 0.5]), nphase=1, exotic=False)
    if len(x.blocks) < 2:
        return
    nb, dts = gen.mix_block_dtypes(rng, dict(x.blocks))
    for k_, v_ in nb.items():
        x.blocks[k_] = v_
    anyc = any(np.dtype(d).kind == "c" for d in dts)
    xt = deep_twin(x, dtype="complex128" if anyc else "float64")
    nd = x.ndim
    g = rng.sample(range(nd), 2)
    rest = [i for i in range(nd) if i not in g]
    steps = [
        ("fuse", lambda a: a.fuse(tuple(g), tuple(rest)), True),
        ("fuse-single", lambda a: a.fuse((g[0],)), True),
        ("fuse-unfuse", lambda a: a.fuse(tuple(g)).unfuse_all(), True),
        ("to_dense", lambda a: a.to_dense(), True),
        ("reshape", lambda a: a.reshape((a.shape[0] * a.shape[1],) + tuple(a.shape[2:])), True),
        ("transpose", lambda a: a.transpose(tuple(reversed(range(nd)))), True),
        ("conj", lambda a: a.conj(), True),
        ("scalar-mul", lambda a: a * 2.0, True),
        ("add-self", lambda a: a + a, True),
        ("fused-contraction", lambda a: sr.tensordot(a, a.conj(), axes=(g, g), mode="fused", preserve_array=True), False),
        ("blockwise-contraction", lambda a: sr.tensordot(a, a.conj(), axes=(g, g), mode="blockwise", preserve_array=True), False),
        ("norm", lambda a: a.norm(), False),
    ]
    if not ferm:
        steps.append(("fuse-concat", lambda a: a.fuse(tuple(g), tuple(rest), mode="concat"), True))

    def fill(a):
        b = a.copy()
        b.fill_missing_blocks()
        return b

    steps.append(("fill_missing_blocks", fill, True))
    lo = "float32" if any(d in ("float32", "complex64") for d in dts) else "float64"
    for name, f, exact in steps:
        wit = {"op": name, "block_dtypes": dts, "x": describe(x)}
        o = ctx.call(f, x)
        ctx.evaluated()
        ctx.count("dtype", "mixed-blocks:" + "+".join(dts))
        ctx.count("op", "mixed-blocks:" + name)
        if not o.ok:
            if isinstance(o.exc, Warning):
                ctx.violation(f"complex-warning:{name}", f"{name} on an array with blocks of types {dts} emitted {o.exc!r} (imaginary part discarded)", wit)
            else:
                ctx.count("raises", f"mixed-blocks:{name}:{o.excname}")
            continue
        ot = ctx.call(f, xt)
        if not ot.ok:
            continue
        r, rt = o.value, ot.value
        if is_array(r):
            va, vb = embed(r), embed(rt, r.indices)
        else:
            va, vb = np.asarray(r), np.asarray(rt)
        if va.shape != vb.shape:
            ctx.violation(f"mixed-blocks-structure:{name}", f"{name}: result shape {va.shape} vs {vb.shape} on the double-precision twin", wit)
            continue
        scale = max(1.0, float(np.abs(vb).max(initial=0)))
        ok = np.array_equal(va, vb) if exact else np.allclose(va, vb, atol=EPS[lo] * scale * 200, rtol=0)
        ctx.count("twin-compared", "mixed-blocks")
        if not ok:
            ctx.violation(f"precision-lost:{name}", f"{name} on an array with blocks of types {dts} differs from the same operation on its {'complex128' if anyc else 'float64'} twin by {float(np.abs(va - vb).max())} ({'values must be kept exactly' if exact else 'beyond single-precision round-off'})", wit)
            continue
        if len(dts) >= 3 or set(dts) == {"float64", "complex64"}:
            ctx.nontrivial(("mixed-blocks", name, tuple(dts), struct_sig(x)))


def large_blocks(ctx, rng):
    """Matrices with a 32-48 wide sector in single precision or complex type; complex data is
    generic, or real-valued (imaginary part exactly zero), or purely imaginary: every
    factorisation returns factors of the type it was given."""
    sr = ctx.sr
    dt = rng.choice(["complex128", "complex64", "complex64", "float32", "complex128"])
    sym = rng.choice(["Z2", "U1", "Z2Z2"])
    ferm = rng.random() < 0.4
    big = rng.randint(32, 48)
    pool = gen.POOL[sym]
    cs = rng.sample(pool, 2)
    r = sr.BlockIndex(dict(sorted({cs[0]: big, cs[1]: rng.randint(1, 3)}.items())), dual=rng.random() < 0.5)
    square = rng.random() < 0.6
    c = gen.conj_index(sr, r) if square else sr.BlockIndex(dict(sorted({cs[0]: rng.randint(32, 40), cs[1]: rng.randint(1, 3)}.items())), dual=rng.random() < 0.5)
    x = gen.make_array(sr, rng, sym, [r, c], charge=R.identity(sym) if square else None, fermionic=ferm, values=gen.Values(rng, "gauss", dt), sparsity=0.0, nphase=rng.choice([0, 1]), exotic=False)
    if not x.blocks:
        return
    flavour = "generic"
    if np.dtype(dt).kind == "c":
        flavour = rng.choice(["generic", "zero-imaginary-part", "zero-imaginary-part", "zero-real-part"])
        for s_ in list(x.blocks):
            b = np.asarray(x.blocks[s_])
            if flavour == "zero-imaginary-part":
                x.blocks[s_] = b.real.astype(dt)
            elif flavour == "zero-real-part":
                x.blocks[s_] = (1j * b.imag).astype(dt)
    if rng.random() < 0.3:
        # identically zero rows / columns inside the blocks (an operator that annihilates some
        # states; a product with a 0/1 diagonal)
        for s_ in list(x.blocks):
            b = np.array(x.blocks[s_])
            if min(b.shape) >= 2:
                if rng.random() < 0.7:
                    b[rng.sample(range(b.shape[0]), rng.randint(1, b.shape[0] // 2))] = 0
                if rng.random() < 0.5:
                    b[:, rng.sample(range(b.shape[1]), rng.randint(1, b.shape[1] // 2))] = 0
                x.blocks[s_] = b
        flavour += "+null-rows-or-columns"
        ctx.count("large", "null-rows-or-columns")
    ctx.count("large", f"{dt}:{flavour}")
    wit = {"dtype": dt, "data": flavour, "x": describe(x)}
    steps = [
        ("svd", lambda a: sr.linalg.svd(a), "svd"),
        ("svd_truncated", lambda a: sr.linalg.svd_truncated(a, max_bond=rng.randint(3, 40), absorb=rng.choice([None, -1, 0, 1])), "svd"),
        ("qr", lambda a: sr.linalg.qr(a), "same"),
        ("qr-stabilized", lambda a: sr.linalg.qr(a, stabilized=True), "same"),
        ("fuse-unfuse", lambda a: a.fuse((0, 1)).unfuse_all(), "same"),
        ("self-product", lambda a: sr.tensordot(a, a.conj(), axes=([1], [1]), preserve_array=True), "same"),
        ("norm", lambda a: a.norm(), "scalar-real"),
    ]
    if square:
        h = x + x.dagger() if not ferm else None
        if h is not None:
            steps.append(("eigh", lambda a: sr.linalg.eigh(a + a.dagger()), "svd"))
    for name, f, rule in steps:
        o = ctx.call(f, x)
        ctx.evaluated()
        ctx.count("dtype", dt)
        ctx.count("op", "large:" + name)
        w = dict(wit, op=name)
        if not o.ok:
            if isinstance(o.exc, Warning):
                ctx.violation(f"complex-warning:{name}", f"{name} on {dt} data emitted {o.exc!r}", w)
            else:
                ctx.count("raises", f"large:{name}:{o.excname}")
            continue
        if judge_dtype(ctx, "large:" + name, rule, o.value, dt, w) and dt != "float64":
            ctx.nontrivial(("large", name, dt, flavour, sym, ferm))


def illcond_solve(ctx, rng):
    """solve in single precision (and the other types) with moderately ill-conditioned blocks
    (condition 1e3 .. 1e6, where a mixed-precision shortcut would start to act): the solution
    keeps the type of the data."""
    sr = ctx.sr
    dt = rng.choice(["float32", "float32", "complex64", "complex128", "float64"])
    sym = gen.pick_sym(rng)
    ferm = rng.random() < 0.4
    cs = rng.sample(gen.POOL[sym], rng.randint(1, min(3, len(gen.POOL[sym]))))
    d_ = rng.randint(2, 6)
    r = sr.BlockIndex({c: d_ for c in sorted(cs)}, dual=rng.random() < 0.5)
    a = gen.make_array(sr, rng, sym, [r, gen.conj_index(sr, r)], charge=R.identity(sym), fermionic=ferm, values=gen.Values(rng, "gauss", dt), sparsity=0.0, nphase=0, exotic=False)
    if not a.blocks:
        return
    npr = np.random.default_rng(rng.getrandbits(60))
    for s_, b in list(a.blocks.items()):
        b = np.asarray(b)
        u_, _, vh_ = np.linalg.svd(b.astype("complex128" if b.dtype.kind == "c" else "float64"))
        sv = np.ones(b.shape[0])
        lo = rng.choice([1e-3, 1e-4, 5e-6, 1e-6])
        sv[1:] = np.geomspace(3e-2, lo, b.shape[0] - 1) if b.shape[0] > 1 else sv[1:]
        a.blocks[s_] = ((u_ * sv) @ vh_).astype(dt)
    kind = "static" if type(a).static_symmetry else "generic_str"
    # right-hand side in the range of the system (x0 random, b = a x0), built by the harness
    x0 = gen.make_array(sr, rng, sym, [gen.conj_index(sr, a.indices[1])], fermionic=ferm, kind=kind, values=gen.Values(rng, "gauss", dt), sparsity=0.0, nphase=0, exotic=False, label=5)
    ob = ctx.call(lambda: sr.tensordot(a, x0, axes=1, preserve_array=True))
    if not ob.ok or not ob.value.blocks:
        return
    b = ob.value
    for s_ in list(b.blocks):
        b.blocks[s_] = np.asarray(b.blocks[s_]).astype(dt)
    if rng.random() < 0.5:
        # a GENERIC right-hand side (components along the small singular directions: the
        # solution is large and a single-precision solve leaves a visible residual)
        vals_b = gen.Values(rng, "gauss", dt)
        for s_ in list(b.blocks):
            b.blocks[s_] = vals_b(np.asarray(b.blocks[s_]).shape)
        ctx.count("illcond", "generic-right-hand-side")
    o = ctx.call(lambda: sr.linalg.solve(a, b))
    ctx.evaluated()
    ctx.count("dtype", dt)
    ctx.count("op", "illcond-solve")
    wit = {"dtype": dt, "a": describe(a), "b": describe(b)}
    if not o.ok:
        if isinstance(o.exc, Warning):
            ctx.violation("complex-warning:solve", f"solve on {dt} data emitted {o.exc!r}", wit)
        else:
            ctx.count("raises", f"illcond-solve:{o.excname}")
        return
    if judge_dtype(ctx, "solve", "same", o.value, dt, wit) and dt != "float64":
        ctx.nontrivial(("illcond-solve", dt, sym, ferm, d_))


def sparse_hermitian(ctx, rng):
    """eigh of Hermitian matrices with MISSING diagonal sectors, single precision and complex:
    eigenvalues real of matching precision, every eigenvector block of the input's type."""
    from symv import lingen

    sr = ctx.sr
    dt = rng.choice(["complex64", "complex128", "float32", "complex64"])
    x, feats = lingen.hermitian_matrix(ctx, rng, dtype=dt)
    if x is None or len(x.blocks) < 1:
        return
    if len(x.blocks) >= 2 and rng.random() < 0.7:
        for s_ in rng.sample(list(x.blocks), rng.randint(1, len(x.blocks) - 1)):
            del x.blocks[s_]
        ctx.count("hermitian", "missing-diagonal-sector")
    for s_ in list(x.blocks):
        x.blocks[s_] = np.asarray(x.blocks[s_]).astype(dt)
    import autoray as ar

    via = rng.choice(["function", "autoray"])
    o = ctx.call((lambda: sr.linalg.eigh(x)) if via == "function" else (lambda: ar.do("linalg.eigh", x)))
    ctx.evaluated()
    ctx.count("dtype", dt)
    ctx.count("op", "sparse-hermitian:eigh")
    wit = {"dtype": dt, "x": describe(x), "via": via}
    if not o.ok:
        if isinstance(o.exc, Warning):
            ctx.violation("complex-warning:eigh", f"eigh on {dt} data emitted {o.exc!r}", wit)
        else:
            ctx.count("raises", f"sparse-hermitian:{o.excname}")
        return
    if judge_dtype(ctx, "eigh", "svd", o.value, dt, wit) and dt != "float64":
        ctx.nontrivial(("sparse-hermitian", dt, struct_sig(x)))


def mixed_contraction(ctx, rng):
    """Contractions of two homogeneous operands of DIFFERENT element types (real x complex,
    single x double), over few or very many aligned sector pairs per output block, in every
    mode: the imaginary part must survive and the value must agree with the double twins."""
    sr = ctx.sr
    da, db = rng.choice([("float32", "complex64"), ("complex64", "float32"), ("float64", "complex128"), ("complex128", "float64"), ("float32", "complex128"), ("complex64", "float64"), ("float32", "float64"), ("float64", "complex64"), ("complex64", "complex64"), ("float32", "float32")])
    ferm = rng.random() < 0.4
    shape = rng.choice(["many-terms", "many-terms", "generic"])
    if shape == "many-terms":
        sym = rng.choice(["Z2", "Z2", "Z2Z2", "Z4", "U1"])
        ncon = {"Z2": rng.randint(6, 7), "Z2Z2": 4, "Z4": 4, "U1": 5}[sym]
        fa, fb = rng.randint(0, 1), rng.randint(0, 1)
        kw = dict(na=ncon + fa, nb=ncon + fb, ncon=ncon, maxd=1, maxc=4 if sym in ("Z2Z2", "Z4") else (3 if sym == "U1" else 2), minc=4 if sym in ("Z2Z2", "Z4") else (3 if sym == "U1" else 2), p_single=0.0, sparsity=0.0)
    else:
        sym = gen.pick_sym(rng)
        kw = dict(maxnd=4, maxd=2, sparsity=rng.choice([0.0, 0.4]))
    _, _, kind = gen.pick_class(sr, rng, sym, ferm)
    a, b, axa, axb = gen.contractible_pair(sr, rng, sym, ferm, values=gen.Values(rng, "gauss", da), kind=kind, nphase=0, **kw)
    b = deep_twin(b, dtype=db)
    if np.dtype(db).kind == "c":
        for s_ in b.blocks:
            b.blocks[s_] = b.blocks[s_] * np.asarray(1 + 0.5j, dtype=db)
    if not a.blocks or not b.blocks:
        return
    # number of aligned sector pairs feeding one output block (harness count)
    keyed = {}
    for sa in a.blocks:
        ka = tuple(sa[i] for i in axa)
        fa_ = tuple(c for i, c in enumerate(sa) if i not in axa)
        for sb in b.blocks:
            if tuple(sb[i] for i in axb) == ka:
                fb_ = tuple(c for i, c in enumerate(sb) if i not in axb)
                keyed[fa_ + fb_] = keyed.get(fa_ + fb_, 0) + 1
    nterms = max(keyed.values(), default=0)
    ctx.count("mixed-contraction", "terms>=32" if nterms >= 32 else ("terms>=8" if nterms >= 8 else "terms<8"))
    want = str(np.result_type(np.dtype(da), np.dtype(db)))
    lo = da if EPS[da] >= EPS[db] else db
    mode = rng.choice(["fused", "blockwise", "auto", "default", "matmul"])
    if mode == "matmul":
        if not (a.ndim == 2 and b.ndim == 2 and list(axa) == [1] and list(axb) == [0]):
            mode = "blockwise"
    if mode == "matmul":
        f = lambda x, y: x @ y
    else:
        kwm = {} if mode == "default" else {"mode": mode}
        f = lambda x, y: sr.tensordot(x, y, axes=(list(axa), list(axb)), preserve_array=True, **kwm)
    wit = {"op": f"tensordot[{mode}]", "dtypes": [da, db], "axes": [list(axa), list(axb)], "max_terms_per_block": nterms, "a": describe(a), "b": describe(b)}
    o = ctx.call(f, a, b)
    ctx.evaluated()
    ctx.count("dtype", f"{da}x{db}")
    ctx.count("op", f"mixed-contraction:{mode}")
    if not o.ok:
        if isinstance(o.exc, Warning):
            ctx.violation("complex-warning:tensordot", f"tensordot[{mode}] of {da} with {db} emitted {o.exc!r} (imaginary part discarded)", wit)
        else:
            ctx.violation(f"tensordot-raises-{o.excname}", repr(o.exc), wit)
        return
    res = o.value
    got = block_dtypes(res)
    if da == db and got and got != {da}:
        ctx.violation("dtype-changed:tensordot", f"tensordot[{mode}] of two {da} arrays has blocks of dtype {sorted(got)}", wit)
        return
    if np.dtype(want).kind == "c" and any(np.dtype(g).kind != "c" for g in got):
        ctx.violation("dtype-changed:tensordot", f"tensordot[{mode}] of {da} with {db}: blocks of dtype {sorted(got)} cannot hold the imaginary part (expected {want})", wit)
        return
    if is_array(res):
        ot = ctx.call(f, deep_twin(a, dtype=HI[da]), deep_twin(b, dtype=HI[db]))
        if ot.ok and is_array(ot.value):
            va, vb = embed(res), embed(ot.value, res.indices)
            ctx.count("twin-compared", lo)
            scale = max(1.0, float(np.abs(vb).max(initial=0)))
            if not np.allclose(va, vb, atol=EPS[lo] * scale * 50 * max(1, nterms), rtol=0):
                ctx.violation("precision-lost:tensordot", f"tensordot[{mode}] of {da} with {db} differs from the same contraction of the double-precision twins by {float(np.abs(va - vb).max())} (scale {scale})", wit)
                return
        if da != db and nterms >= 8:
            ctx.nontrivial(("mixed", mode, da, db, struct_sig(a), struct_sig(b)))


def run(ctx):
    for _, rng in ctx.cases("programs", ctx.budget(28000, 550000)):
        ctx.run_case(run_program, ctx, rng)
    for _, rng in ctx.cases("dedicated", ctx.budget(21000, 400000)):
        ctx.run_case(dedicated, ctx, rng)
    for _, rng in ctx.cases("illcond-solve", ctx.budget(6000, 120000)):
        ctx.run_case(illcond_solve, ctx, rng)
    for _, rng in ctx.cases("sparse-hermitian", ctx.budget(6000, 120000)):
        ctx.run_case(sparse_hermitian, ctx, rng)
    for _, rng in ctx.cases("large-blocks", ctx.budget(900, 18000)):
        ctx.run_case(large_blocks, ctx, rng)
    for _, rng in ctx.cases("mixed-blocks", ctx.budget(5000, 100000)):
        ctx.run_case(mixed_blocks, ctx, rng)
    for _, rng in ctx.cases("mixed-contraction", ctx.budget(6000, 120000)):
        ctx.run_case(mixed_contraction, ctx, rng)
