"""C05 — fusing is an exact, invertible re-indexing described by the fused index."""
import itertools

import numpy as np

from symv import gen
from symv import refsym as R
from symv.audit import audit
from symv.dense import describe, index_sig, is_fermionic, phases_of, snapshot, struct_sig
from symv.hooks import Hooks

META = {
    "level": "exploration",
    "level_text": "For every monitored fuse call each original element (unique integer ids) is located bit-identically at the position the RESULT's own sub-index table prescribes, slices are disjoint, everything else is exactly zero, fused charge/direction follow the statement; unfuse_all + inverse permutation restores the original bit for bit; insert == concat; identical with the plan cache at sizes 0/1/default while hook H1 compares every cached plan with a fresh one. Per sampled structure all sparsity subsets (<=64, else sampled) and many ordered groupings are enumerated. Exploration; not exhaustive over structures. Later additions: signed zeros compared bit for bit, blocks of 2-4 element types, subjects with identity histories, one index object on several legs, fuse with empty groups, conj of fused-before arrays, a hunt for cache-key digest collisions (2x10^5 look-ups per case, every collision replayed). Round 9: user-defined symmetries; 6-8-leg subjects with one group of 5-7 axes (all-bra / all-ket groups, sectors with six or more odd charges inside the group, whole branches missing). Round 10: families differing two fuse levels down, fused a third time and unfolded completely, visited twice in random order with the plan cache on.",
    "technique": "runtime monitoring: element-placement oracle from the result's own sub-index table, bit-exact round trip, strategy differential, plan-cache hook",
    "rule": (
        "one evaluation = one fuse call judged by the placement oracle (+ unfuse round trip, + insert/concat differential for abelian arrays). "
        "Workload: per random structure (5 symmetries, 2-4 axes, abelian/fermionic, nested pre-fused axes) every non-empty subset of the valid sectors (<=64, else 48 sampled) "
        "x sampled ordered groupings of 1-3 disjoint groups (single-axis, permuted, non-adjacent). Non-trivial = >=1 group of >=2 axes, >=1 fused charge with "
        ">=2 sub-sectors and >=1 missing sub-block inside a produced fused block; distinct by (structure, grouping, sparsity mask, strategy)."
    ),
    "anchors": [
        "abelian_core.calc_fuse_block_info",
        "abelian_core.calc_fuse_group_info",
        "abelian_core._fuse_blocks_via_insert",
        "abelian_core._fuse_blocks_via_concat",
        "abelian_core.AbelianArray.unfuse",
        "abelian_core.AbelianArray.unfuse_all",
        "fermionic_core.FermionicArray.fuse",
        "fermionic_core.FermionicArray.unfuse",
    ],
    "floors": {
        "quick": {"evaluations": 4000, "distinct_nontrivial": 500, "tables": {"strategy/insert": 1000, "strategy/concat": 1000, "kind/fermionic": 500, "roundtrip": 2000, "hook/plan-compared": 2000, "feature/nested": 50, "feature/single-axis-group": 300, "feature/conj-of-fused-before": 300, "feature/empty-group": 1000, "feature/signed-zeros": 500, "feature/group-of-5-or-more-axes": 1500, "feature/sector-with->=6-odd-charges-in-one-group": 100, "roundtrip/nested-twins-unfolded": 5000}},
        "thorough": {"evaluations": 300000, "distinct_nontrivial": 30000, "tables": {"strategy/concat": 50000, "kind/fermionic": 30000, "feature/nested": 3000}},
    },
    "wall": {"quick": 900, "thorough": 1700},
}


def groupings(rng, nd, limit):
    """Ordered lists of 1-3 disjoint non-empty ordered axis groups."""
    out = set()
    tries = 0
    while len(out) < limit and tries < limit * 20:
        tries += 1
        ng = rng.choice([1, 1, 2, 2, 3])
        axes = list(range(nd))
        rng.shuffle(axes)
        gs = []
        for g in range(ng):
            if not axes:
                break
            k = rng.choice([1, 2, 2, 3]) if g == 0 else rng.choice([1, 1, 2])
            k = min(k, len(axes))
            gs.append(tuple(axes[:k]))
            axes = axes[k:]
        if gs:
            out.add(tuple(gs))
    return sorted(out)


def expected_layout(x, groups):
    nd = x.ndim
    grouped = {ax for g in groups for ax in g}
    position = min(grouped)
    before = [ax for ax in range(position) if ax not in grouped]
    after = [ax for ax in range(position, nd) if ax not in grouped]
    perm = [*before, *[ax for g in groups for ax in g], *after]
    return position, before, after, perm


def judge_fuse(ctx, x, groups, res, wit, tag):
    """Placement oracle. Returns True if res passed."""
    sym = R.symname(x)
    position, before, after, perm = expected_layout(x, groups)
    ng = len(groups)
    bad = lambda mech, msg: ctx.violation(mech, f"{tag}: {msg}", wit)
    if res.ndim != len(before) + ng + len(after):
        bad("fuse-rank", f"result rank {res.ndim}")
        return False
    errs = audit(res)
    if errs:
        bad("fuse-invalid-result", "; ".join(errs[:3]))
        return False
    if res.charge != x.charge:
        bad("fuse-charge", f"{res.charge!r} != {x.charge!r}")
        return False
    # index structure
    for k, ax in enumerate(before):
        if index_sig(res.indices[k]) != index_sig(x.indices[ax]):
            bad("fuse-untouched-index", f"axis {ax} changed")
            return False
    for k, ax in enumerate(after):
        if index_sig(res.indices[position + ng + k]) != index_sig(x.indices[ax]):
            bad("fuse-untouched-index", f"axis {ax} changed")
            return False
    starts = []
    for g, gaxes in enumerate(groups):
        rix = res.indices[position + g]
        if len(gaxes) == 1:
            if index_sig(rix) != index_sig(x.indices[gaxes[0]]):
                bad("fuse-single-axis-group", f"group {gaxes} index changed")
                return False
            starts.append(None)
            continue
        if bool(rix.dual) != bool(x.indices[gaxes[0]].dual):
            bad("fuse-direction", f"group {gaxes}: direction {rix.dual} != that of its first axis")
            return False
        if rix.subinfo is None:
            bad("fuse-no-subinfo", f"group {gaxes} has no sub-index table")
            return False
        if tuple(index_sig(s) for s in rix.subinfo.indices) != tuple(index_sig(x.indices[ax]) for ax in gaxes):
            bad("fuse-subindices", f"group {gaxes}: sub-indices are not the fused axes in group order")
            return False
        st = {}
        for c, ext in rix.subinfo.extents.items():
            t = 0
            for sub, d in ext.items():
                st[(c, sub)] = (t, d)
                t += d
        starts.append(st)
    # element placement
    ph_x = phases_of(x)
    ph_r = phases_of(res)
    cover = {sec: np.zeros(np.shape(b), dtype=np.int8) for sec, b in res.blocks.items()}
    ferm = is_fermionic(x)
    nsub_seen = {}
    for sec, blk in x.blocks.items():
        blk = np.asarray(blk)
        new_sec = [sec[ax] for ax in before]
        sl = [slice(None)] * len(before)
        shape = [blk.shape[ax] for ax in before]
        for g, gaxes in enumerate(groups):
            if len(gaxes) == 1:
                new_sec.append(sec[gaxes[0]])
                sl.append(slice(None))
                shape.append(blk.shape[gaxes[0]])
                continue
            gd = x.indices[gaxes[0]].dual
            fc = R.comb(sym, [R.signed(sym, sec[ax], bool(x.indices[ax].dual) != bool(gd)) for ax in gaxes])
            sub = tuple(sec[ax] for ax in gaxes)
            new_sec.append(fc)
            d = int(np.prod([blk.shape[ax] for ax in gaxes], dtype=int))
            if (fc, sub) not in starts[g]:
                bad("fuse-subsector-missing-from-table", f"block {sec}: sub-sector {sub} of fused charge {fc!r} not in the result's table")
                return False
            s0, dd = starts[g][(fc, sub)]
            if dd != d:
                bad("fuse-extent-size", f"block {sec}: table extent {dd} != {d}")
                return False
            sl.append(slice(s0, s0 + d))
            shape.append(d)
            nsub_seen.setdefault((g, fc), set()).add(sub)
        new_sec += [sec[ax] for ax in after]
        sl += [slice(None)] * len(after)
        shape += [blk.shape[ax] for ax in after]
        new_sec = tuple(new_sec)
        if new_sec not in res.blocks:
            bad("fuse-block-lost", f"block {sec} should land in fused sector {new_sec}, which is absent")
            return False
        moved = np.transpose(blk, perm).reshape(shape) * ph_x.get(sec, 1)
        got = np.asarray(res.blocks[new_sec])[tuple(sl)] * ph_r.get(new_sec, 1)
        if got.shape != moved.shape:
            bad("fuse-slice-shape", f"block {sec}: slice shape {got.shape} != {moved.shape}")
            return False
        same = np.array_equal(got, moved)
        if same and not ferm and np.ascontiguousarray(got).tobytes() != np.ascontiguousarray(np.asarray(moved).astype(np.result_type(got, moved))).astype(np.asarray(got).dtype).tobytes():
            bad("fuse-not-bit-exact", f"block {sec} -> sector {new_sec}: equal as numbers but not bit for bit (sign of a zero changed)")
            return False
        if not same and ferm and np.array_equal(got, -moved):
            same = True
        if not same:
            bad("fuse-misplaced", f"block {sec} -> sector {new_sec} slice {sl}: content differs (not even up to one sign)" if ferm else f"block {sec} -> sector {new_sec} slice {sl}: content differs")
            return False
        cover[new_sec][tuple(sl)] += 1
    for sec, cv in cover.items():
        if np.any(cv > 1):
            bad("fuse-overlap", f"fused sector {sec}: two original blocks overlap")
            return False
        rest = np.asarray(res.blocks[sec])[cv == 0]
        if rest.size and np.any(rest != 0):
            bad("fuse-nonzero-fill", f"fused sector {sec}: elements outside every placed block are not exactly zero")
            return False
    # non-trivial classification
    multi = any(len(g) >= 2 for g in groups)
    two_sub = any(len(s) >= 2 for s in nsub_seen.values())
    holes = any(np.any(cv == 0) for cv in cover.values())
    return (multi, two_sub, holes)


def judge_roundtrip(ctx, x, groups, res, wit, tag):
    position, before, after, perm = expected_layout(x, groups)
    o = ctx.call(lambda: res.unfuse_all())
    ctx.count("roundtrip", "unfuse_all")
    if not o.ok:
        ctx.violation(f"unfuse-raises-{o.excname}", f"{tag}: {o.exc!r}", wit)
        return
    u = o.value
    nested = any(x.indices[ax].subinfo is not None for g in groups if len(g) > 1 for ax in g)
    if nested:
        # unfuse_all peels the outer level only where x's own fused axes are regrouped
        pass
    inv = tuple(perm.index(i) for i in range(x.ndim))
    if u.ndim != x.ndim:
        # single-axis groups holding pre-fused axes get unfused too by unfuse_all: compare one level deeper
        ctx.count("roundtrip", "rank-differs-skipped")
        return _roundtrip_via_unfuse(ctx, x, groups, res, wit, tag)
    o2 = ctx.call(lambda: u.transpose(inv))
    if not o2.ok:
        ctx.violation(f"transpose-raises-{o2.excname}", f"{tag}: {o2.exc!r}", wit)
        return
    _same_as_original(ctx, x, o2.value, wit, tag)


def _roundtrip_via_unfuse(ctx, x, groups, res, wit, tag):
    """Unfuse exactly the groups this call fused (right to left)."""
    position, before, after, perm = expected_layout(x, groups)
    cur = res
    for g in reversed(range(len(groups))):
        if len(groups[g]) > 1:
            o = ctx.call(lambda: cur.unfuse(position + g))
            if not o.ok:
                ctx.violation(f"unfuse-raises-{o.excname}", f"{tag}: {o.exc!r}", wit)
                return
            cur = o.value
    inv = tuple(perm.index(i) for i in range(x.ndim))
    o2 = ctx.call(lambda: cur.transpose(inv))
    if not o2.ok:
        ctx.violation(f"transpose-raises-{o2.excname}", f"{tag}: {o2.exc!r}", wit)
        return
    ctx.count("roundtrip", "unfuse-by-axis")
    _same_as_original(ctx, x, o2.value, wit, tag)


def _same_as_original(ctx, x, y, wit, tag):
    if tuple(index_sig(i) for i in y.indices) != tuple(index_sig(i) for i in x.indices):
        ctx.violation("roundtrip-indices", f"{tag}: indices after unfusing differ from the originals", wit)
        return
    if y.charge != x.charge:
        ctx.violation("roundtrip-charge", f"{tag}: {y.charge!r}", wit)
        return
    px, py = phases_of(x), phases_of(y)
    for sec, b in x.blocks.items():
        if sec not in y.blocks:
            # (a stored block that happens to hold only zeros is an original block too)
            ctx.violation("roundtrip-block-lost", f"{tag}: block {sec} missing after round trip" + ("" if np.any(np.asarray(b) != 0) else " (a stored all-zero block)"), wit)
            return
        if not np.array_equal(np.asarray(b) * px.get(sec, 1), np.asarray(y.blocks[sec]) * py.get(sec, 1)):
            ctx.violation("roundtrip-value", f"{tag}: block {sec} not restored bit for bit", wit)
            return
        if not is_fermionic(x) and np.ascontiguousarray(np.asarray(b).astype(np.result_type(np.asarray(b), np.asarray(y.blocks[sec])))).tobytes() != np.ascontiguousarray(np.asarray(y.blocks[sec])).tobytes():
            ctx.violation("roundtrip-not-bit-exact", f"{tag}: block {sec} restored as equal numbers but not bit for bit (sign of a zero changed)", wit)
            return
    for sec, b in y.blocks.items():
        if sec not in x.blocks and np.any(np.asarray(b) != 0):
            ctx.violation("roundtrip-extra-block", f"{tag}: extra non-zero block {sec}", wit)
            return


def same_result(r1, r2):
    """insert == concat: same indices, same block keys (as sets), same bytes (snapshots hold
    the raw bytes of every block, so signed zeros count)."""
    s1, s2 = snapshot(r1), snapshot(r2)
    if s1[:5] != s2[:5] or s1[6:] != s2[6:]:
        return False
    if dict(s1[5]) == dict(s2[5]):
        return True
    if len({str(np.asarray(b).dtype) for b in r1.blocks.values()} | {str(np.asarray(b).dtype) for b in r2.blocks.values()}) > 1:
        # operand with blocks of several element types: insert allocates every fused block in
        # the common type, concat promotes block by block - same numbers, compared as such
        return set(r1.blocks) == set(r2.blocks) and all(np.asarray(b).shape == np.asarray(r2.blocks[k]).shape and np.array_equal(np.asarray(b), np.asarray(r2.blocks[k])) for k, b in r1.blocks.items())
    return False


def one_fuse(ctx, hooks, rng, x, groups, feature):
    import autoray as ar

    sr = ctx.sr
    ferm = is_fermionic(x)
    wit = {"op": "fuse", "groups": [list(g) for g in groups], "x": describe(x, True)}
    cs = rng.choice([0, 1, 2, 8192])
    hooks.set_cache(maxsize=cs, clear=rng.random() < 0.1)
    ctx.count("cache_size", str(cs))
    results = {}
    strategies = ["auto"] if ferm else ["insert", "concat"]
    for strat in strategies:
        via = "method"
        if strat != "concat" and rng.random() < 0.3:
            via = rng.choice(["function", "autoray"])
        if via == "function":
            fn = lambda: sr.fuse(x, *groups)
        elif via == "autoray":
            fn = lambda: ar.do("fuse", x, *groups)
        elif ferm:
            fn = lambda: x.fuse(*groups)
        else:
            fn = lambda: x.fuse(*groups, mode=strat)
        o = ctx.call(fn)
        ctx.evaluated()
        ctx.count("strategy", strat)
        ctx.count("kind", "fermionic" if ferm else "abelian")
        ctx.count("symmetry", R.symname(x))
        for f in feature:
            ctx.count("feature", f)
        tag = f"fuse{[list(g) for g in groups]} strategy={strat} via={via}"
        if not o.ok:
            single_missing = any(len(g) == 1 for g in groups)
            mech = f"fuse-raises-{o.excname}"
            if strat == "concat" and single_missing and o.excname in ("KeyError", "AttributeError"):
                mech = "concat-single-axis-group-missing-subblock"
            ctx.violation(mech, f"{tag}: {o.exc!r}", wit)
            continue
        v = judge_fuse(ctx, x, groups, o.value, wit, tag)
        if v is False:
            continue
        results[strat] = o.value
        multi, two_sub, holes = v
        ctx.count("nontrivial_parts", f"multi={multi},two_sub={two_sub},holes={holes}")
        if multi and two_sub and holes:
            ctx.nontrivial((struct_sig(x), groups, strat))
            ctx.sample({"op": "fuse", "groups": [list(g) for g in groups], "strategy": strat, "x": describe(x), "result_indices": describe(o.value)["indices"]}, limit=3)
        judge_roundtrip(ctx, x, groups, o.value, wit, tag)
    if len(results) == 2:
        ctx.count("differential", "insert-vs-concat")
        if not same_result(results["insert"], results["concat"]):
            ctx.violation("insert-concat-differ", f"fuse{[list(g) for g in groups]}: strategies give different arrays", wit)


def sparsity_subsets(rng, secs, cap_all=6, nsample=48):
    n = len(secs)
    if n <= cap_all:
        out = []
        for r in range(1, n + 1):
            out += [list(c) for c in itertools.combinations(secs, r)]
        return out
    out = [list(secs)]
    for _ in range(nsample - 1):
        k = rng.randint(1, n)
        out.append(rng.sample(secs, k))
    return out


def case_structure(ctx, hooks, rng):
    sr = ctx.sr
    sym = gen.pick_sym(rng)
    ferm = rng.random() < 0.4
    nd = rng.choice([2, 3, 3, 4, 4, 4, 5])
    maxd = 2 if nd >= 4 else 3
    idx = [gen.rand_index(sr, rng, sym, maxc=3 if nd < 4 else 2, maxd=maxd, p_single=0.05, minc=2 if rng.random() < 0.7 else 1) for _ in range(nd)]
    feature = []
    n_sh = gen.EXOTIC_SEEN.get("shared-index-object", 0)
    gen.share_index_objects(rng, idx)
    if gen.EXOTIC_SEEN.get("shared-index-object", 0) > n_sh:
        feature.append("one-index-object-on-several-legs")
    charge = gen.pick_charge(rng, sym, idx)
    secs = gen.all_sectors(sym, idx, charge)
    cls, extra, kind = gen.pick_class(sr, rng, sym, ferm)
    vals = gen.Values(rng, "signedzero" if (not ferm and rng.random() < 0.3) else "unique", rng.choice(["float64", "float64", "complex128"]))
    if vals.mode == "signedzero":
        feature.append("signed-zeros")
    subsets = sparsity_subsets(rng, secs)
    gsets = groupings(rng, nd, ctx.n(4, 12))
    nsub = ctx.n(6, 64)
    if len(subsets) > nsub:
        subsets = rng.sample(subsets, nsub)
    for keep in subsets:
        keep = list(keep)
        rng.shuffle(keep)
        blocks = {s: vals(tuple(ix.chargemap[c] for ix, c in zip(idx, s))) for s in keep}
        zeroed = len(blocks) >= 2 and rng.random() < 0.1
        if zeroed:
            # one or two stored blocks hold nothing but zeros (explicitly stored zeros are data)
            for s_ in rng.sample(list(blocks), rng.choice([1, 1, 2])):
                blocks[s_] = np.zeros_like(blocks[s_])
        mixed = vals.mode == "unique" and len(blocks) >= 2 and rng.random() < 0.15
        if mixed:
            blocks, dts_ = gen.mix_block_dtypes(rng, blocks)
        kw = dict(indices=tuple(idx), charge=charge, blocks=blocks, **extra)
        if ferm and R.par(sym, charge):
            kw["oddpos"] = 7
        x = cls(**kw)
        if ferm:
            gen.add_phases(rng, x, rng.choice([0, 1, 2]))
        hist_ = []
        if vals.mode == "unique" and not mixed and rng.random() < 0.1:
            x, hist_ = gen.identity_history(sr, rng, x)
        for groups in gsets:
            feat = list(feature)
            if mixed:
                feat.append(f"mixed-dtype-blocks-{len(dts_)}")
            if hist_:
                feat.append("subject-with-history")
            if zeroed:
                feat.append("stored-all-zero-block")
            if any(len(g) == 1 for g in groups):
                feat.append("single-axis-group")
            if any(list(g) != sorted(g) for g in groups):
                feat.append("permuted-group")
            if any(max(g) - min(g) + 1 != len(g) for g in groups if len(g) > 1):
                feat.append("non-adjacent-group")
            if len(groups) > 1:
                feat.append("multi-group")
            one_fuse(ctx, hooks, rng, x, groups, feat)
            if rng.random() < 0.25:
                # the conjugate (indices derived from already-hashed ones) with the same grouping
                oc = ctx.call(x.conj)
                if oc.ok:
                    one_fuse(ctx, hooks, rng, oc.value, groups, feat + ["conj-of-fused-before"])
            if not ctx.time_left():
                return


def case_many_legs(ctx, hooks, rng):
    """6-8 legs, one group of 5-7 axes (not necessarily the last group) beside a spectator leg
    or a second group; legs with two charges of size one (Z2-like: a sector can hold six or
    seven odd charges inside the group) or three charges (U1: more than four sub-sectors per
    fused charge); all-dual and all-ket groups; a third of the blocks dropped."""
    sr = ctx.sr
    sym = rng.choice(["Z2", "Z2", "U1", "U1", "Z4", "Z2Z2", gen.pick_sym(rng)])
    ferm = rng.random() < 0.55
    wide = sym in ("U1", "Z4", "Z3") and rng.random() < 0.5
    nd = rng.randint(5, 6) if wide else rng.randint(6, 8)
    pool = gen.POOL[sym]
    du = rng.choice(["random", "random", "all-dual", "all-ket"])
    idx = []
    for _ in range(nd):
        cs = rng.sample(pool, min(len(pool), 3 if wide else 2))
        dual = {"random": rng.random() < 0.5, "all-dual": True, "all-ket": False}[du]
        idx.append(sr.BlockIndex({c: (2 if rng.random() < 0.1 else 1) for c in sorted(cs)}, dual=dual))
    charge = gen.pick_charge(rng, sym, idx)
    secs = gen.all_sectors(sym, idx, charge)
    if not secs:
        return
    cls, extra, kind = gen.pick_class(sr, rng, sym, ferm)
    vals = gen.Values(rng, "unique", rng.choice(["float64", "float64", "complex128"]))
    axes = list(range(nd))
    rng.shuffle(axes)
    k = rng.randint(5, nd - 1) if nd > 5 else 4
    if rng.random() < 0.15:
        k = nd
    long_ = tuple(axes[:k])
    rest = axes[k:]
    groups = [long_]
    if rest and rng.random() < 0.6:
        g2 = tuple(rest[: rng.randint(1, len(rest))])
        groups = [long_, g2] if rng.random() < 0.6 else [g2, long_]
    groups = tuple(groups)
    for rep in range(ctx.n(2, 4)):
        frac = rng.choice([1.0, 0.7, 0.7, 0.4])
        keep = [s_ for s_ in secs if rng.random() < frac] or [rng.choice(secs)]
        if rep == 0 and rng.random() < 0.5:
            # drop one whole branch: every sector that shares a prefix inside the long group
            pre = tuple(rng.choice(secs)[a] for a in long_[:2])
            keep = [s_ for s_ in keep if tuple(s_[a] for a in long_[:2]) != pre] or keep
        rng.shuffle(keep)
        blocks = {s_: vals(tuple(ix.chargemap[c] for ix, c in zip(idx, s_))) for s_ in keep}
        kw = dict(indices=tuple(idx), charge=charge, blocks=blocks, **extra)
        if ferm and R.par(sym, charge):
            kw["oddpos"] = 7
        x = cls(**kw)
        if ferm:
            gen.add_phases(rng, x, rng.choice([0, 1, 2]))
        feat = ["group-of-5-or-more-axes", f"legs:{du}"]
        nodd = max((sum(R.par(sym, s_[a]) for a in long_) for s_ in keep), default=0)
        if ferm and nodd >= 6:
            feat.append("sector-with->=6-odd-charges-in-one-group")
        if len(groups) > 1:
            feat.append("multi-group")
        one_fuse(ctx, hooks, rng, x, groups, feat)
        if not ctx.time_left():
            return


def case_nested_twins(ctx, hooks, rng):
    """Families of arrays that differ only at the BOTTOM of a fuse history (order / direction /
    charge tables of the innermost pair), each fused twice ((0,1) then (0,1) again), fused a
    third time with a random grouping and then unfolded completely, in one process with the
    plan cache at its default size: every member must come back as itself. Members are visited
    in random order, twice."""
    from symv import c15ops

    fam = c15ops.nested_chain_family(ctx.sr, rng, fuse=False, values="unique")
    if len(fam) < 2:
        return
    hooks.set_cache(maxsize=8192, maxsectors=512, clear=rng.random() < 0.2)
    gsets = groupings(rng, 3, 3)
    visits = [(t, x, g) for t, x in fam for g in gsets] * 2
    rng.shuffle(visits)
    for tag_, x, groups in visits:
        wit = {"family_member": tag_, "third_fuse_groups": [list(g) for g in groups], "x": describe(x, True), "siblings": [t for t, _ in fam]}
        tag = f"[{tag_}] fuse((0,1)).fuse((0,1)).fuse{[list(g) for g in groups]} then unfolded"

        def chain():
            x2 = x.fuse((0, 1)).fuse((0, 1))
            y = x2.fuse(*groups)
            z = y
            for _ in range(6):
                if all(ix.subinfo is None for ix in z.indices):
                    break
                z = z.unfuse_all()
            return x2, y, z

        o = ctx.call(chain)
        ctx.evaluated()
        ctx.count("strategy", "auto")
        ctx.count("kind", "fermionic" if is_fermionic(x) else "abelian")
        ctx.count("feature", "nested-twins")
        if not o.ok:
            ctx.violation(f"fuse-raises-{o.excname}", f"{tag}: {o.exc!r}", wit)
            continue
        x2, y, z = o.value
        if z.ndim != x.ndim:
            ctx.violation("roundtrip-indices", f"{tag}: rank {z.ndim} after unfolding, {x.ndim} before", wit)
            continue
        _, _, _, perm2 = expected_layout(x2, groups)
        order = []
        for p_ in perm2:
            order += [0, 1, 2] if p_ == 0 else [p_ + 2]
        inv = tuple(order.index(i) for i in range(x.ndim))
        o2 = ctx.call(lambda: z.transpose(inv))
        if not o2.ok:
            ctx.violation(f"transpose-raises-{o2.excname}", f"{tag}: {o2.exc!r}", wit)
            continue
        _same_as_original(ctx, x, o2.value, wit, tag)
        ctx.count("roundtrip", "nested-twins-unfolded")
        ctx.nontrivial(("twins", tag_, groups, struct_sig(x)))


def case_nested(ctx, hooks, rng):
    """Groups containing already-fused axes."""
    sr = ctx.sr
    sym = gen.pick_sym(rng)
    ferm = rng.random() < 0.4
    x0 = gen.rand_array(sr, rng, sym, ndim=rng.choice([3, 4]), fermionic=ferm, values=gen.Values(rng, "unique"), maxd=2)
    g0 = groupings(rng, x0.ndim, 3)
    g0 = [g for g in g0 if any(len(t) > 1 for t in g)]
    if not g0:
        return
    first = rng.choice(g0)
    o = ctx.call(lambda: x0.fuse(*first))
    if not o.ok or o.value.ndim < 2:
        return
    x = o.value
    for groups in groupings(rng, x.ndim, 4):
        touches = any(x.indices[ax].subinfo is not None for g in groups for ax in g)
        one_fuse(ctx, hooks, rng, x, groups, ["nested"] if touches else ["prefused-bystander"])


def case_empty_groups(ctx, hooks, rng):
    """fuse with empty groups: expand_empty=False ignores them; expand_empty=True adds a
    zero-charge size-one axis per empty group - element for element the same tensor as the
    fuse of the non-empty groups with np.expand_dims applied."""
    from symv.dense import embed

    sr = ctx.sr
    sym = gen.pick_sym(rng)
    ferm = rng.random() < 0.4
    x = gen.rand_array(sr, rng, sym, ndim=rng.choice([2, 3, 4]), fermionic=ferm, values=gen.Values(rng, "unique"), maxd=2)
    groups = list(rng.choice(groupings(rng, x.ndim, 4)))
    withempty = list(groups)
    npos = rng.randint(1, 2)
    for _ in range(npos):
        withempty.insert(rng.randint(0, len(withempty)), ())
    wit = {"op": "fuse", "groups": [list(g) for g in withempty], "x": describe(x, True)}
    base = ctx.call(lambda: x.fuse(*groups))
    if not base.ok:
        return
    ctx.evaluated()
    ctx.count("feature", "empty-group")
    o0 = ctx.call(lambda: x.fuse(*withempty, expand_empty=False))
    if not o0.ok:
        ctx.violation(f"fuse-empty-group-raises-{o0.excname}", repr(o0.exc), wit)
        return
    if snapshot(o0.value) != snapshot(base.value):
        ctx.violation("fuse-empty-group-not-ignored", "fuse(..., expand_empty=False) with empty groups differs from the fuse of the non-empty groups", wit)
        return
    o1 = ctx.call(lambda: x.fuse(*withempty))
    if not o1.ok:
        ctx.violation(f"fuse-empty-group-raises-{o1.excname}", repr(o1.exc), wit)
        return
    y = o1.value
    errs = audit(y)
    if errs:
        ctx.violation("fuse-empty-group-invalid", "; ".join(errs[:3]), wit)
        return
    if y.ndim != base.value.ndim + npos:
        ctx.violation("fuse-empty-group-rank", f"rank {y.ndim} != {base.value.ndim} + {npos}", wit)
        return
    new_axes = [k for k, ix in enumerate(y.indices) if ix.size_total == 1 and dict(ix.chargemap) == {R.identity(sym): 1}]
    d0 = embed(base.value)
    dy = embed(y)
    # the result must be the base tensor with size-one axes inserted somewhere
    if dy.size != d0.size or not np.array_equal(np.sort(np.abs(dy).reshape(-1)), np.sort(np.abs(d0).reshape(-1))) or len(new_axes) < npos:
        ctx.violation("fuse-empty-group-value", "fuse with empty groups is not the fuse of the non-empty groups with zero-charge size-one axes added", wit)
        return
    squeezed = dy.reshape([n for k, n in enumerate(dy.shape) if not (k in new_axes[:npos])]) if False else None
    ok = False
    import itertools as _it

    for combo in _it.combinations(new_axes, npos):
        shp = [n for k, n in enumerate(dy.shape) if k not in combo]
        if shp == list(d0.shape) and np.array_equal(dy.reshape(shp), d0):
            ok = True
            break
    if not ok:
        ctx.violation("fuse-empty-group-value", "removing the added size-one axes does not give back the fuse of the non-empty groups", wit)
        return
    ctx.nontrivial(("empty", struct_sig(x), tuple(withempty)))


def run(ctx):
    hooks = Hooks(ctx)
    hooks.install_plan_hook()
    for _, rng in ctx.cases("nested", ctx.budget(11000, 200000)):
        ctx.run_case(case_nested, ctx, hooks, rng)
    for _, rng in ctx.cases("empty-groups", ctx.budget(6000, 100000)):
        ctx.run_case(case_empty_groups, ctx, hooks, rng)
    for _, rng in ctx.cases("many-legs", ctx.budget(1500, 30000)):
        ctx.run_case(case_many_legs, ctx, hooks, rng)
    for _, rng in ctx.cases("nested-twins", ctx.budget(1500, 30000)):
        ctx.run_case(case_nested_twins, ctx, hooks, rng)
    for _, rng in ctx.cases("structure", ctx.budget(13000, 20000)):
        ctx.run_case(case_structure, ctx, hooks, rng)
    # the plan a fuse uses comes from a cache keyed by a digest: hunt for two different
    # (array, grouping) arguments with one digest and replay them for real (symv/hooks.py)
    from symv.hooks import key_collision_hunt

    for _, rng in ctx.cases("key-collisions", ctx.budget(12, 120)):
        r_ = ctx.run_case(key_collision_hunt, ctx, hooks, rng, ctx.n(200000, 600000))
        if r_:
            ctx.count("hunt", "cache-key-lookups", r_[0])
            ctx.count("hunt", "digest-collisions-found", r_[1])
    hooks.uninstall()
