"""C17 — charges form an abelian group with parity; sector enumeration is exact."""
import itertools

import numpy as np

from symv import refsym as R

META = {
    "level": "exploration",
    "level_text": "Exhaustive enumeration (thorough tier) of the stated finite boxes: every group element / pair / triple against RefSym, and every (charge-subset, dualness, total charge) sector-enumeration case for <=4 indices (<=3 for 4-label pools) through gen_valid_sectors, from_fill_fn and random, for static and generic classes, abelian and fermionic. Quick tier samples the same space. Exploration, exhaustive inside the bounds; nothing is claimed outside them. Later additions: direction flags as 1 / numpy bools before any proper bool call in every fresh worker, abandoned enumerations and failing fill functions as history, enumerations with 10^5-10^6 candidates (meet-in-the-middle oracle), legs 8x wider than the others, unreachable total charges. Round 9: the same BlockIndex objects enumerated under 2-4 symmetries in a row (shipped and user-defined), through gen_valid_sectors / from_fill_fn / random. Round 10: is_valid_sector on random tuples and get_sparsity judged against the enumeration oracle.",
    "technique": "runtime monitoring: exhaustive bounded enumeration with reference-model oracle (RefSym brute force)",
    "rule": (
        "group axioms: every tuple of charges of Z2/Z4/Z2Z2 (full group, up to 3-fold products) and of U1 on [-6,6], "
        "U1U1 on [-6,6]^2 (pairs) / [-3,3]^2 (triples) is one evaluation; sector enumeration: one evaluation per "
        "(symmetry, class kind, per-index charge subset, dualness pattern, total charge) with gen_valid_sectors, "
        "from_fill_fn and random compared with a brute-force RefSym product filter. Non-trivial = enumeration case with "
        ">=2 indices, >=1 valid and >=1 invalid tuple; distinct by the full case descriptor."
    ),
    "anchors": ["abelian_core.AbelianArray.gen_valid_sectors", "symmetries.get_symmetry"],
    "floors": {
        "quick": {"evaluations": 20000, "distinct_nontrivial": 1500, "tables": {"axioms": 10000, "sectors": 3000, "huge/candidates>65536*last": 8, "wide/candidates>16384": 20, "cross-symmetry/later-step-with-sectors": 2000}},
        "thorough": {"evaluations": 300000, "distinct_nontrivial": 30000, "tables": {"axioms": 100000, "sectors": 50000, "cross-symmetry/later-step-with-sectors": 40000}},
    },
    "exhaustive": {"quick": False, "thorough": True},
    "wall": {"quick": 900, "thorough": 1500},
    "assumptions": [
        "RefSym (symv/refsym.py) is the reference group arithmetic",
        "group elements outside the stated boxes are not explored for U1-type symmetries",
    ],
}

ELEMS = {
    "Z2": [0, 1],
    "Z4": [0, 1, 2, 3],
    "Z2Z2": [(0, 0), (0, 1), (1, 0), (1, 1)],
    "U1": list(range(-6, 7)),
    "U1U1": [(a, b) for a in range(-6, 7) for b in range(-6, 7)],
}
ELEMS3 = dict(ELEMS, U1U1=[(a, b) for a in range(-3, 4) for b in range(-3, 4)])


def axioms(ctx, sym):
    S = ctx.sr.get_symmetry(sym)
    bad = lambda mech, msg: ctx.violation(mech, f"{sym}: {msg}", {"symmetry": sym})
    E = ELEMS[sym]
    ident = S.combine()
    ctx.evaluated()
    ctx.count("axioms", "identity")
    if ident != R.identity(sym) or not S.valid(ident):
        bad("identity", f"combine() = {ident!r}")
    for k, a in enumerate(E):
        if k % ctx.nshards != ctx.shard:
            continue
        ctx.evaluated()
        ctx.count("axioms", "unary")
        if not S.valid(a):
            bad("valid-rejects-group-element", f"valid({a!r}) is False")
        if S.sign(a, False) != a:
            bad("sign-nondual", f"sign({a!r}, False) = {S.sign(a, False)!r}")
        na = S.sign(a, True)
        if na != R.neg(sym, a):
            bad("negation-value", f"sign({a!r}, True) = {na!r}, reference {R.neg(sym, a)!r}")
        if not R.valid(sym, na) or not S.valid(na):
            bad("negation-invalid-label", f"sign({a!r}) = {na!r} is not a valid charge label")
        if S.combine(a, na) != ident:
            bad("negation-not-inverse", f"combine({a!r}, sign({a!r})) = {S.combine(a, na)!r}")
        if S.combine(a) != a or S.combine(a, ident) != a or S.combine(ident, a) != a:
            bad("identity-law", f"combine with identity changes {a!r}")
        if S.parity(a) != R.par(sym, a) or S.parity(a) not in (0, 1):
            bad("parity-value", f"parity({a!r}) = {S.parity(a)!r}")
        if S.sign(a) != na:
            bad("sign-default", f"sign({a!r}) default differs from dual=True")
        for b in E:
            ctx.evaluated()
            ctx.count("axioms", "pairs")
            ab = S.combine(a, b)
            if ab != R.comb(sym, [a, b]):
                bad("combine-value", f"combine({a!r},{b!r}) = {ab!r}, reference {R.comb(sym, [a, b])!r}")
            if ab != S.combine(b, a):
                bad("commutativity", f"combine({a!r},{b!r}) != combine({b!r},{a!r})")
            if not R.valid(sym, ab) or not S.valid(ab):
                bad("closure", f"combine({a!r},{b!r}) = {ab!r} not valid")
            if S.parity(ab) != (S.parity(a) + S.parity(b)) % 2:
                bad("parity-additive", f"parity(combine({a!r},{b!r}))")
    E3 = ELEMS3[sym]
    trip = list(itertools.product(E3, repeat=3))
    if ctx.quick and len(trip) > 40000:
        rng = __import__("random").Random(f"{ctx.seed}:{sym}:trip")
        trip = rng.sample(trip, 40000)
    for k, (a, b, c) in enumerate(trip):
        if k % ctx.nshards != ctx.shard:
            continue
        ctx.evaluated()
        ctx.count("axioms", "triples")
        l = S.combine(S.combine(a, b), c)
        r = S.combine(a, S.combine(b, c))
        f = S.combine(a, b, c)
        if not (l == r == f == R.comb(sym, [a, b, c])):
            bad("associativity", f"({a!r},{b!r},{c!r}): {l!r} {r!r} {f!r}")


SUBPOOL = {
    "Z2": [0, 1],
    "Z4": [0, 1, 2, 3],
    "U1": [-1, 0, 1, 2],
    "Z2Z2": [(0, 0), (0, 1), (1, 0), (1, 1)],
    "U1U1": [(0, 0), (0, 1), (1, 0), (-1, 1)],
}


def subsets(pool):
    out = []
    for r in range(1, len(pool) + 1):
        out += [list(c) for c in itertools.combinations(pool, r)]
    return out


def sector_cases(ctx, sym):
    """All (charge subsets per index, duals, charge) for ndim 0..maxnd."""
    pool = SUBPOOL[sym]
    subs = subsets(pool)
    maxnd = 4 if len(pool) == 2 else 3
    for nd in range(0, maxnd + 1):
        for css in itertools.product(subs, repeat=nd):
            # restrict the 4-index space of large pools (never reached: maxnd=3 there)
            for duals in itertools.product([False, True], repeat=nd):
                yield nd, css, duals


def reachable_charges(sym, css, duals):
    out = {R.identity(sym)}
    tot = set()
    for sec in itertools.product(*css):
        tot.add(R.sector_charge(sym, sec, duals))
    extra = {R.neg(sym, c) for c in tot} | set(SUBPOOL[sym][:2])
    return sorted(tot | out | extra, key=repr)


def check_sectors(ctx, sym, nd, css, duals, rng):
    sr = ctx.sr
    from symv import gen

    indices = [sr.BlockIndex({c: 1 + (k + i) % 2 for i, c in enumerate(cs)}, dual=d) for k, (cs, d) in enumerate(zip(css, duals))]
    charges = reachable_charges(sym, css, duals)
    if ctx.quick:
        charges = rng.sample(charges, min(2, len(charges)))
    # also a total charge that NO combination reaches (the enumeration must then be empty)
    from symv import gen as _gen

    unreachable = [c for c in _gen.POOL[sym] if c not in reachable_charges(sym, css, duals)]
    if unreachable and rng.random() < 0.3:
        charges = list(charges) + [rng.choice(unreachable)]
        ctx.count("sectors", "unreachable-total-charge")
    for charge in charges:
        expect = R.valid_sectors(sym, css, duals, charge)
        nall = 1
        for cs in css:
            nall *= len(cs)
        for fermionic in (False, True):
            cls, extra, kind = gen.pick_class(sr, rng, sym, fermionic)
            kw = dict(extra)
            if fermionic and R.par(sym, charge):
                kw["oddpos"] = 1
            desc = {"symmetry": sym, "class": cls.__name__, "kind": kind, "charges": [list(map(repr, cs)) for cs in css], "duals": list(duals), "charge": repr(charge)}
            hist = rng.random()
            if hist < 0.2:
                # history: an enumeration of the same structure that was abandoned half way
                g0 = cls(indices=indices, charge=charge, **kw).gen_valid_sectors()
                for _ in range(rng.randint(0, 2)):
                    next(g0, None)
                if rng.random() < 0.5:
                    del g0
                ctx.count("history", "abandoned-enumeration")
            elif hist < 0.3:
                # history: a fill function that fails after the first block
                calls = []

                def bad_fill(shape):
                    calls.append(shape)
                    if len(calls) >= 2:
                        raise RuntimeError("fill function failed")
                    return __import__("numpy").ones(shape)

                ctx.call(lambda: cls.from_fill_fn(bad_fill, list(indices), charge, **kw))
                ctx.count("history", "failed-fill-function")
            o = ctx.call(lambda: list(cls(indices=indices, charge=charge, **kw).gen_valid_sectors()))
            ctx.evaluated()
            ctx.count("sectors", f"{sym}:gen_valid_sectors")
            if not o.ok:
                ctx.violation(f"gen_valid_sectors-raises-{o.excname}", f"{desc}: {o.exc!r}", desc)
                continue
            got = o.value
            _judge(ctx, "gen_valid_sectors", got, expect, desc)
            # the pointwise form of the same rule, and the count derived from the enumeration
            if nd >= 1 and rng.random() < 0.3:
                arr_ = cls(indices=indices, charge=charge, **kw)
                es_ = set(expect)
                for _ in range(4):
                    sec_ = tuple(rng.choice(cs) for cs in css)
                    ov = ctx.call(lambda: arr_.is_valid_sector(sec_))
                    ctx.evaluated()
                    ctx.count("sectors", f"{sym}:is_valid_sector")
                    if not ov.ok:
                        ctx.violation(f"is_valid_sector-raises-{ov.excname}", f"{desc}: {ov.exc!r}", desc)
                    elif bool(ov.value) != (sec_ in es_):
                        ctx.violation("sector-extra" if ov.value else "sector-missing", f"is_valid_sector({sec_}) = {ov.value!r} for {desc}, enumeration oracle says {sec_ in es_}", desc)
                if expect:
                    keep_ = rng.sample(expect, rng.randint(1, len(expect)))
                    import numpy as _np

                    arr2_ = cls(indices=indices, charge=charge, blocks={s_: _np.ones(tuple(ix.chargemap[c] for ix, c in zip(indices, s_))) for s_ in keep_}, **kw)
                    osp = ctx.call(lambda: arr2_.get_sparsity())
                    ctx.count("sectors", f"{sym}:get_sparsity")
                    if osp.ok and abs(osp.value - len(keep_) / len(expect)) > 1e-12:
                        ctx.violation("sector-extra" if osp.value < len(keep_) / len(expect) else "sector-missing", f"get_sparsity() = {osp.value!r} with {len(keep_)} stored blocks of {len(expect)} allowed sectors ({desc})", desc)
            if nd >= 2 and expect and len(expect) < nall:
                ctx.nontrivial(("sec", sym, fermionic, css, duals, charge))
            ctx.sample({"kind": "sector-enumeration", **desc, "expected_sectors": [repr(s) for s in expect]})
            # the constructors that rely on the enumeration
            how = rng.choice(["list", "list", "tuple", "generator", "iterator"])
            as_arg = {"list": lambda: list(indices), "tuple": lambda: tuple(indices), "generator": lambda: (ix for ix in indices), "iterator": lambda: iter(indices)}[how]
            ctx.count("indices_container", how)
            o = ctx.call(lambda: cls.from_fill_fn(lambda shape: __import__("numpy").ones(shape), as_arg(), charge, **kw))
            ctx.evaluated()
            ctx.count("sectors", f"{sym}:from_fill_fn")
            if not o.ok:
                ctx.violation(f"from_fill_fn-raises-{o.excname}", f"{desc}: {o.exc!r}", desc)
            else:
                _judge(ctx, "from_fill_fn", list(o.value.blocks), expect, desc)
                for sec, b in o.value.blocks.items():
                    shp = tuple(ix.chargemap[c] for ix, c in zip(indices, sec) if c in ix.chargemap)
                    if tuple(b.shape) != shp:
                        ctx.violation("from_fill_fn-block-shape", f"{desc}: block {sec} shape {b.shape} != {shp}", desc)
            if rng.random() < 0.3:
                o = ctx.call(lambda: cls.random(as_arg(), charge=charge, seed=7, **kw))
                ctx.evaluated()
                ctx.count("sectors", f"{sym}:random")
                if not o.ok:
                    ctx.violation(f"random-raises-{o.excname}", f"{desc}: {o.exc!r}", desc)
                else:
                    _judge(ctx, "random", list(o.value.blocks), expect, desc)


def huge_case(ctx, rng):
    """Enumerations with 10^5 .. 10^6 candidate tuples (7-10 legs, 4-7 charges each): beyond
    any table-size threshold of the generator. Oracle: an incremental count/sum-free brute force
    over the same candidate space (meet in the middle), compared as sets."""
    import itertools

    sr = ctx.sr
    from symv import gen

    sym = rng.choice(["U1", "U1", "Z4", "U1U1", "Z2Z2", "Z2"])
    if sym == "U1":
        nleg, mk = rng.randint(7, 8), (lambda: list(range(-3, 4)) if rng.random() < 0.8 else list(range(-2, 3)))
    elif sym == "Z4":
        nleg, mk = rng.randint(10, 11), (lambda: [0, 1, 2, 3])
    elif sym == "U1U1":
        box = [(a, b) for a in range(-1, 2) for b in range(-1, 2)]
        nleg, mk = 7, (lambda: rng.sample(box, 7))
    elif sym == "Z2Z2":
        nleg, mk = rng.randint(10, 11), (lambda: [(0, 0), (0, 1), (1, 0), (1, 1)])
    else:
        nleg, mk = rng.randint(18, 19), (lambda: [0, 1])
    css = [sorted(mk()) for _ in range(nleg)]
    duals = [rng.random() < 0.5 for _ in range(nleg)]
    ncand = 1
    for cs in css:
        ncand *= len(cs)
    ctx.count("huge", "candidates>65536*last" if ncand // len(css[-1]) > 65536 else "candidates-smaller")
    # a reachable total charge
    charge = R.sector_charge(sym, [rng.choice(cs) for cs in css], duals)
    # oracle: meet in the middle over signed partial sums
    h = nleg // 2
    left = {}
    for sec in itertools.product(*css[:h]):
        left.setdefault(R.sector_charge(sym, sec, duals[:h]), []).append(sec)
    expect = set()
    for sec in itertools.product(*css[h:]):
        need = R.comb(sym, [charge, R.neg(sym, R.sector_charge(sym, sec, duals[h:]))])
        for l in left.get(need, ()):
            expect.add(l + sec)
    indices = [sr.BlockIndex({c: 1 for c in cs}, dual=d) for cs, d in zip(css, duals)]
    cls, extra, kind = gen.pick_class(sr, rng, sym, False)
    desc = {"symmetry": sym, "class": cls.__name__, "legs": nleg, "charges_per_leg": [len(cs) for cs in css], "duals": duals, "charge": repr(charge), "candidates": ncand}
    o = ctx.call(lambda: list(cls(indices=indices, charge=charge, **extra).gen_valid_sectors()))
    ctx.evaluated()
    ctx.count("sectors", f"{sym}:gen_valid_sectors-huge")
    if not o.ok:
        ctx.violation(f"gen_valid_sectors-raises-{o.excname}", f"{desc}: {o.exc!r}", desc)
        return
    got = o.value
    gs = set(got)
    if len(gs) != len(got):
        ctx.violation("sector-repeated", f"gen_valid_sectors {desc}: {len(got) - len(gs)} repeated sectors", desc)
    elif gs - expect:
        ctx.violation("sector-extra", f"gen_valid_sectors {desc}: {len(gs - expect)} extra sectors, e.g. {sorted(gs - expect, key=repr)[:2]}", desc)
    elif expect - gs:
        ctx.violation("sector-missing", f"gen_valid_sectors {desc}: {len(expect - gs)} of {len(expect)} sectors missing, e.g. {sorted(expect - gs, key=repr)[:2]}", desc)
    else:
        ctx.nontrivial(("huge", sym, nleg, tuple(len(cs) for cs in css), tuple(duals)))


def wide_case(ctx, rng):
    """Few legs (3-4) that are each very wide - 11 to 45 charges, the bond indices of a
    particle-number-conserving network - so that the candidate space exceeds 2^14 .. 2^16 tuples
    at low rank; charge ranges not symmetric about zero, any dualness pattern, total charges
    far from zero. Oracle: meet in the middle over signed partial sums, compared as sets."""
    import itertools

    sr = ctx.sr
    from symv import gen

    sym = rng.choice(["U1", "U1", "U1", "U1U1"])
    nleg = rng.choice([3, 3, 4])
    css = []
    for _ in range(nleg):
        if sym == "U1":
            w = rng.randint(20, 45) if nleg == 3 else rng.randint(11, 16)
            lo = rng.choice([0, 0, -w // 2, -rng.randint(0, w), rng.randint(1, 9)])
            cs = list(range(lo, lo + w))
            if rng.random() < 0.3:
                cs = sorted(rng.sample(cs, max(2, w - rng.randint(1, 4))))  # gaps
        else:
            w1, w2 = (rng.randint(4, 7), rng.randint(4, 7)) if nleg == 3 else (rng.randint(3, 4), rng.randint(3, 4))
            l1, l2 = rng.choice([0, -1, -w1 // 2]), rng.choice([0, -2, -w2 // 2])
            cs = [(a, b) for a in range(l1, l1 + w1) for b in range(l2, l2 + w2)]
        css.append(sorted(cs))
    duals = [rng.random() < 0.5 for _ in range(nleg)]
    ncand = 1
    for cs in css:
        ncand *= len(cs)
    ctx.count("wide", "candidates>16384" if ncand > 16384 else "candidates-smaller")
    if ncand > 65536:
        ctx.count("wide", "candidates>65536")
    charge = R.sector_charge(sym, [rng.choice(cs) for cs in css], duals)
    h = nleg // 2
    left = {}
    for sec in itertools.product(*css[:h]):
        left.setdefault(R.sector_charge(sym, sec, duals[:h]), []).append(sec)
    expect = set()
    for sec in itertools.product(*css[h:]):
        need = R.comb(sym, [charge, R.neg(sym, R.sector_charge(sym, sec, duals[h:]))])
        for l in left.get(need, ()):
            expect.add(l + sec)
    indices = [sr.BlockIndex({c: 1 for c in cs}, dual=d) for cs, d in zip(css, duals)]
    cls, extra, kind = gen.pick_class(sr, rng, sym, False)
    desc = {"symmetry": sym, "class": cls.__name__, "legs": nleg, "charge_ranges": [(repr(cs[0]), repr(cs[-1]), len(cs)) for cs in css], "duals": duals, "charge": repr(charge), "candidates": ncand}
    via = rng.choice(["gen_valid_sectors", "gen_valid_sectors", "from_fill_fn"])
    if via == "gen_valid_sectors":
        o = ctx.call(lambda: list(cls(indices=indices, charge=charge, **extra).gen_valid_sectors()))
    else:
        o = ctx.call(lambda: list(cls.from_fill_fn(lambda shape: np.ones(shape), indices, charge=charge, **extra).blocks))
    ctx.evaluated()
    ctx.count("sectors", f"{sym}:{via}-wide")
    if not o.ok:
        ctx.violation(f"{via}-raises-{o.excname}", f"{desc}: {o.exc!r}", desc)
        return
    got = o.value
    gs = set(got)
    if len(gs) != len(got):
        ctx.violation("sector-repeated", f"{via} {desc}: {len(got) - len(gs)} repeated sectors", desc)
    elif gs - expect:
        ctx.violation("sector-extra", f"{via} {desc}: {len(gs - expect)} extra sectors, e.g. {sorted(gs - expect, key=repr)[:2]}", desc)
    elif expect - gs:
        ctx.violation("sector-missing", f"{via} {desc}: {len(expect - gs)} of {len(expect)} sectors missing, e.g. {sorted(expect - gs, key=repr)[:2]}", desc)
    else:
        ctx.nontrivial(("wide", sym, tuple(len(cs) for cs in css), tuple(duals), repr(charge)))


def lopsided_case(ctx, rng):
    """Legs of very different width: one leg with 8-14 charges beside legs with one or two."""
    import itertools

    sr = ctx.sr
    from symv import gen

    sym = rng.choice(["U1", "U1", "U1U1"])
    nleg = rng.randint(2, 4)
    wide = rng.randrange(nleg)
    css = []
    for k in range(nleg):
        if k == wide:
            n = rng.randint(8, 14)
            cs = list(range(-rng.randint(0, 5), n)) if sym == "U1" else [(a, b) for a in range(-1, 3) for b in range(-1, 3)]
            cs = cs[:n]
        else:
            pool = list(range(-2, 4)) if sym == "U1" else gen.POOL[sym]
            cs = rng.sample(pool, rng.randint(1, 2))
        css.append(sorted(cs))
    duals = [rng.random() < 0.5 for _ in range(nleg)]
    charge = R.sector_charge(sym, [rng.choice(cs) for cs in css], duals) if rng.random() < 0.8 else rng.choice(gen.POOL[sym])
    expect = set(R.valid_sectors(sym, css, duals, charge))
    indices = [sr.BlockIndex({c: 1 for c in cs}, dual=d) for cs, d in zip(css, duals)]
    cls, extra, kind = gen.pick_class(sr, rng, sym, rng.random() < 0.3)
    kw = dict(extra)
    if cls.__name__.startswith(("Fermionic", "U1Fermionic", "U1U1Fermionic")) or "Fermionic" in cls.__name__:
        if R.par(sym, charge):
            kw["oddpos"] = 1
    desc = {"symmetry": sym, "class": cls.__name__, "charges_per_leg": [len(cs) for cs in css], "duals": duals, "charge": repr(charge)}
    o = ctx.call(lambda: list(cls(indices=indices, charge=charge, **kw).gen_valid_sectors()))
    ctx.evaluated()
    ctx.count("sectors", f"{sym}:gen_valid_sectors-lopsided")
    if not o.ok:
        ctx.violation(f"gen_valid_sectors-raises-{o.excname}", f"{desc}: {o.exc!r}", desc)
        return
    _judge(ctx, "gen_valid_sectors", o.value, sorted(expect, key=repr), desc)
    if expect:
        ctx.nontrivial(("lopsided", sym, tuple(len(cs) for cs in css), tuple(duals), repr(charge)))


def cross_symmetry_case(ctx, rng):
    """The SAME BlockIndex objects used under several symmetries one after the other (an index
    is only a table charge -> size plus a direction, and labels such as 0 / 1 or (0, 1) are valid
    for several groups: Z2 < Z4 < U1, Z3, Z2Z2 < U1U1 = BoseFermi labels). The enumeration under
    each symmetry must be right whatever was enumerated with these objects before; user-defined
    symmetries take part."""
    sr = ctx.sr
    from symv import gen

    fam = rng.choice(["int", "int", "tuple"])
    if fam == "int":
        pool = rng.choice([[0, 1], [0, 1], [0, 1, 2], [0, 1, 2, 3]])
        syms = [s_ for s_ in ("Z2", "Z3", "Z4", "U1") if all(R.valid(s_, c) for c in pool)]
    else:
        pool = [(0, 0), (0, 1), (1, 0), (1, 1)]
        syms = ["Z2Z2", "U1U1", "BoseFermi"]
    nleg = rng.randint(1, 4)
    css = [sorted(rng.sample(pool, rng.randint(1, len(pool)))) for _ in range(nleg)]
    duals = [rng.random() < 0.5 for _ in range(nleg)]
    indices = [sr.BlockIndex({c: 1 + (i + k) % 2 for i, c in enumerate(cs)}, dual=d) for k, (cs, d) in enumerate(zip(css, duals))]
    if nleg >= 2 and rng.random() < 0.2:
        indices[-1] = indices[0]
        css[-1] = css[0]
        duals[-1] = duals[0]
    order = [rng.choice(syms) for _ in range(rng.randint(2, 4))]
    if len(set(order)) < 2:
        order[-1] = rng.choice([s_ for s_ in syms if s_ != order[0]])
    ctx.count("cross-symmetry", "->".join(order[:2]))
    for step, sym in enumerate(order):
        charge = R.sector_charge(sym, [rng.choice(cs) for cs in css], duals) if rng.random() < 0.8 else rng.choice(pool)
        expect = R.valid_sectors(sym, css, duals, charge)
        fermionic = rng.random() < 0.4
        cls, extra, kind = gen.pick_class(sr, rng, sym, fermionic)
        kw = dict(extra)
        if fermionic and R.par(sym, charge):
            kw["oddpos"] = 1
        desc = {"symmetries_in_order": order, "step": step, "symmetry": sym, "class": cls.__name__, "kind": kind, "charges": [list(map(repr, cs)) for cs in css], "duals": list(duals), "charge": repr(charge), "same_index_objects_at_every_step": True}
        how = rng.choice(["gen_valid_sectors", "gen_valid_sectors", "from_fill_fn", "random"])
        if how == "gen_valid_sectors":
            o = ctx.call(lambda: list(cls(indices=indices, charge=charge, **kw).gen_valid_sectors()))
        elif how == "from_fill_fn":
            o = ctx.call(lambda: list(cls.from_fill_fn(lambda shape: np.ones(shape), indices, charge, **kw).blocks))
        elif how == "random":
            o = ctx.call(lambda: list(cls.random(indices, charge=charge, seed=3, **kw).blocks))
        ctx.evaluated()
        ctx.count("sectors", f"{sym}:{how}-cross")
        if not o.ok:
            ctx.violation(f"{how}-raises-{o.excname}", f"{desc}: {o.exc!r}", desc)
            continue
        _judge(ctx, how, o.value, expect, desc)
        if step >= 1 and expect and nleg >= 2:
            ctx.count("cross-symmetry", "later-step-with-sectors")
            ctx.nontrivial(("cross", tuple(order[: step + 1]), tuple(map(tuple, css)), tuple(duals), repr(charge)))


def _judge(ctx, what, got, expect, desc):
    gs = set(got)
    es = set(expect)
    if len(gs) != len(got):
        ctx.violation("sector-repeated", f"{what} {desc}: repeats in {got}", desc)
    if gs - es:
        ctx.violation("sector-extra", f"{what} {desc}: extra sectors {sorted(gs - es, key=repr)}", desc)
    if es - gs:
        mech = "sector-missing"
        ctx.violation(mech, f"{what} {desc}: missing sectors {sorted(es - gs, key=repr)} (got {sorted(gs, key=repr)})", desc)


def nonbool_flags_first(ctx, sym):
    """Runs FIRST in every fresh worker process, before any call with a proper bool: the
    direction flag of `sign` given as 1 / 0 / numpy bools / numpy ints (what callers hold when
    directions come from a list of ints or a numpy array). Negation must not depend on how the
    truth value is spelled, and must not poison what later calls with real bools return."""
    import numpy as np

    S = ctx.sr.get_symmetry(sym)
    ident = S.combine()
    for a in ELEMS[sym][:: max(1, len(ELEMS[sym]) // 40)]:
        for flag, truth in ((1, True), (np.True_, True), (np.int64(1), True), (0, False), (np.False_, False)):
            ctx.evaluated()
            ctx.count("axioms", "nonbool-direction-flag")
            try:
                got = S.sign(a, flag)
            except Exception as e:
                ctx.violation(f"sign-raises-{type(e).__name__}", f"{sym}: sign({a!r}, {flag!r}) raised {e!r}", {"symmetry": sym})
                continue
            want = R.neg(sym, a) if truth else a
            if got != want:
                ctx.violation("negation-depends-on-flag-spelling", f"{sym}: sign({a!r}, {flag!r}) = {got!r}, expected {want!r} (flag is {'true' if truth else 'false'})", {"symmetry": sym})
                return
        if S.sign(a, True) != R.neg(sym, a) or S.combine(a, S.sign(a, True)) != ident:
            ctx.violation("negation-value", f"{sym}: after calls with non-bool flags, sign({a!r}, True) = {S.sign(a, True)!r}", {"symmetry": sym})
            return


def run(ctx):
    for sym in R.SYMS:
        if ctx.want(f"nonbool-{sym}", 0):
            ctx.run_case(nonbool_flags_first, ctx, sym)
    for sym in R.SYMS:
        if ctx.want(f"axioms-{sym}", 0):
            ctx.run_case(axioms, ctx, sym)
    import random

    for sym in R.SYMS:
        allc = list(sector_cases(ctx, sym))
        n = len(allc)
        if ctx.quick:
            pick = random.Random(f"{ctx.seed}:{sym}:pick")
            sel = sorted(pick.sample(range(n), min(n, ctx.budget(12000, 12000))))
        else:
            sel = range(n)
        ctx.notes[f"sector_case_space_{sym}"] = n if ctx.shard == 0 else 0
        for j, k in enumerate(sel):
            if j % ctx.nshards != ctx.shard:
                continue
            if not ctx.time_left():
                ctx.count("budget", "sectors:stopped_by_wall_clock")
                break
            nd, css, duals = allc[k]
            if not ctx.want(f"sectors-{sym}", k):
                continue
            rng = random.Random(f"{ctx.seed}:{sym}:{k}")
            ctx.run_case(check_sectors, ctx, sym, nd, css, duals, rng)
    for _, rng in ctx.cases("huge", ctx.budget(24, 300)):
        ctx.run_case(huge_case, ctx, rng)
    for _, rng in ctx.cases("wide-legs", ctx.budget(60, 900)):
        ctx.run_case(wide_case, ctx, rng)
    for _, rng in ctx.cases("lopsided", ctx.budget(4000, 80000)):
        ctx.run_case(lopsided_case, ctx, rng)
    for _, rng in ctx.cases("cross-symmetry", ctx.budget(6000, 120000)):
        ctx.run_case(cross_symmetry_case, ctx, rng)
