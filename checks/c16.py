"""C16 — all ways of building an array agree, and dense conversion round-trips."""
import itertools
import warnings

import numpy as np

from symv import cmp, gen
from symv import refsym as R
from symv.audit import audit
from symv.dense import LayoutError, chargevec, describe, embed, is_fermionic, struct_sig

META = {
    "level": "exploration",
    "level_text": "One tensor specification (indices, directions, charge, block values) is fed to every constructor - plain constructor, from_blocks, from_fill_fn, from_dense (class method and utils function), random (validity only) - of the static and the generic classes (symmetry as string and as object), with every combination of omitted optional arguments that the documented defaults make meaningful; all results must densify (harness densifier) to the same tensor with the same charge, directions and charge tables. to_dense -> from_dense with sorted labels is the identity; from_dense -> to_dense on an arbitrary dense array with unsorted, interleaved labels equals the harness projection (zero outside charge-conserving sectors, stable sort by charge). A documented call form that raises is a violation. Later additions: histories of sibling labelings (hash twins, one label changed, swaps, repeats), label maps as list / tuple / ndarray / dict in any insertion order, directions as ints / ndarray, axes of 97-260 positions, mixed-dtype dense round trips, total charges no sector conserves. Round 9: user-defined symmetries through the generic constructors. Round 10: almost regularly spaced labels (repeated motif or sorted runs with point mutations) along 6-14 positions.",
    "technique": "runtime monitoring: cross-constructor differential with independent densifier + projection oracle for dense round trips",
    "rule": (
        "one evaluation = one constructor / conversion call compared with the specification or the projection oracle. Non-trivial = >=2 indices with >=2 charges, a dual index, and "
        "(for dense conversions) an unsorted interleaved labeling with non-zero elements outside the valid sectors; distinct by (constructor, class kind, omitted optionals, structure)."
    ),
    "anchors": ["abelian_core.AbelianArray.from_blocks", "abelian_core.AbelianArray.from_fill_fn", "abelian_core.AbelianArray.from_dense", "abelian_core.AbelianArray.to_dense", "fermionic_core.FermionicArray.to_dense", "utils.from_dense", "abelian_core.AbelianArray.random"],
    "floors": {
        "quick": {"evaluations": 8000, "distinct_nontrivial": 1200, "tables": {"ctor/plain": 800, "ctor/from_blocks": 800, "ctor/from_fill_fn": 800, "ctor/from_dense": 800, "ctor/utils.from_dense": 300, "ctor/random": 300, "roundtrip/to_dense-from_dense": 500, "roundtrip/projection": 800, "kind/generic_str": 300, "kind/generic_obj": 300, "kind/static": 800, "feature/index-from-unsorted-pairs": 300, "history/hash-twin-all": 300, "history/hash-twin-one": 300, "history/one-label": 300}},
        "thorough": {"evaluations": 250000, "distinct_nontrivial": 30000},
    },
    "wall": {"quick": 900, "thorough": 1500},
}


def spec_case(ctx, rng):
    sr = ctx.sr
    sym = gen.pick_sym(rng)
    ferm = rng.random() < 0.4
    nd = rng.randint(1, 3)
    idx = [gen.rand_index(sr, rng, sym, maxc=3, maxd=2) for _ in range(nd)]
    if rng.random() < 0.3:
        # indices given as a sequence of (charge, size) pairs in arbitrary order
        idx2 = []
        for ix in idx:
            pairs = list(ix.chargemap.items())
            rng.shuffle(pairs)
            idx2.append(sr.BlockIndex(pairs if rng.random() < 0.5 else tuple(pairs), dual=ix.dual))
        idx = idx2
        ctx.count("feature", "index-from-unsorted-pairs")
    duals = [bool(ix.dual) for ix in idx]
    charge = gen.pick_charge(rng, sym, idx) if rng.random() < 0.6 else R.identity(sym)
    secs = gen.all_sectors(sym, idx, charge)
    if not secs:
        return
    vals = gen.Values(rng, "unique", rng.choice(["float64", "complex128"]))
    full = {s: vals(tuple(ix.chargemap[c] for ix, c in zip(idx, s))) for s in secs}
    keep = gen.thin(rng, secs, rng.choice([0.0, 0.3]))
    blocks = {s: full[s] for s in keep}
    odd = R.par(sym, charge)
    ident = charge == R.identity(sym)
    cls, extra, kind = gen.pick_class(sr, rng, sym, ferm)
    okw = {"oddpos": 3} if (ferm and odd) else {}
    ctx.count("kind", kind)
    ctx.count("symmetry", sym)
    spec_desc = {"symmetry": sym, "class": cls.__name__, "kind": kind, "charge": repr(charge), "indices": [{"chargemap": {repr(c): d for c, d in ix.chargemap.items()}, "dual": bool(ix.dual)} for ix in idx], "sectors": [repr(s) for s in keep]}
    ref = [sr.BlockIndex(dict(ix.chargemap), dual=ix.dual) for ix in idx]
    exp_sparse = embed_blocks(blocks, ref)
    exp_full = embed_blocks(full, ref)
    nt = nd >= 2 and any(duals) and sum(len(ix.chargemap) >= 2 for ix in idx) >= 2

    def judge(name, omitted, fn, expect, tables="spec", want_cls=None):
        o = ctx.call(fn)
        ctx.evaluated()
        ctx.count("ctor", name)
        w = dict(spec_desc, constructor=name, omitted=omitted)
        if not o.ok:
            mech = f"{name}-raises-{o.excname}"
            if name == "from_blocks" and "symmetry" in omitted and kind == "static":
                mech = "from_blocks-default-symmetry"
            if name in ("from_dense", "utils.from_dense") and kind != "static":
                mech = "from_dense-ignores-symmetry-argument"
            ctx.violation(mech, f"{cls.__name__}.{name} (omitted: {omitted}) raised {o.exc!r} on a documented call form", w)
            return None
        x = o.value
        errs = audit(x)
        if errs:
            mech = f"{name}-invalid-array"
            if name == "plain" and "charge" in omitted and any(duals):
                mech = "plain-ctor-infers-unsigned-charge"
            ctx.violation(mech, f"{name} (omitted: {omitted}): {errs[:2]}", w)
            return None
        if type(x) is not (want_cls or cls):
            ctx.violation(f"{name}-class", f"returned {type(x).__name__}", w)
            return None
        if x.charge != charge:
            ctx.violation(f"{name}-charge", f"charge {x.charge!r} != specified {charge!r} (omitted: {omitted})", w)
            return None
        if [bool(ix.dual) for ix in x.indices] != duals:
            ctx.violation(f"{name}-directions", f"directions {[ix.dual for ix in x.indices]} != {duals}", w)
            return None
        m = cmp.compare_array(x, ref, expect, True)
        if m:
            ctx.violation(f"{name}-value", f"{name} (omitted: {omitted}): {m}", w)
            return None
        if tables == "spec":
            if [dict(ix.chargemap) for ix in x.indices] != [dict(ix.chargemap) for ix in idx]:
                ctx.violation(f"{name}-tables", f"charge tables {[dict(ix.chargemap) for ix in x.indices]} differ from the specification", w)
                return None
        else:  # inferred from blocks: restriction of the spec to charges that appear
            want = [{c: d for c, d in ix.chargemap.items() if any(s[k] == c for s in keep)} for k, ix in enumerate(idx)]
            if [dict(ix.chargemap) for ix in x.indices] != want:
                ctx.violation(f"{name}-tables", f"charge tables {[dict(ix.chargemap) for ix in x.indices]} != charges appearing in the blocks {want}", w)
                return None
        if nt:
            ctx.nontrivial((name, kind, tuple(omitted), struct_sig(x)))
        return x

    # ---- plain constructor
    judge("plain", [], lambda: cls(indices=idx, charge=charge, blocks=dict(blocks), **extra, **okw), exp_sparse)
    judge("plain", ["positional"], lambda: cls(idx, charge, dict(blocks), **extra, **okw) if not ferm else cls(idx, charge, dict(blocks), **extra, **okw), exp_sparse)
    # charge omitted: inferred from the first sector
    judge("plain", ["charge"], lambda: cls(indices=idx, blocks=dict(blocks), **extra, **okw), exp_sparse)
    # ---- from_blocks
    judge("from_blocks", [], lambda: cls.from_blocks(dict(blocks), duals, charge=charge, **({"symmetry": extra["symmetry"]} if extra else {"symmetry": rng.choice([sym, sr.get_symmetry(sym)])}), **okw), exp_sparse, tables="blocks")
    if kind == "static":
        judge("from_blocks", ["symmetry"], lambda: cls.from_blocks(dict(blocks), duals, charge=charge, **okw), exp_sparse, tables="blocks")
        if ident:
            judge("from_blocks", ["symmetry", "charge"], lambda: cls.from_blocks(dict(blocks), duals, **okw), exp_sparse, tables="blocks")
    elif ident:
        judge("from_blocks", ["charge"], lambda: cls.from_blocks(dict(blocks), duals, **extra, **okw), exp_sparse, tables="blocks")
    # ---- from_fill_fn (fills every valid sector)
    def via_fill(**kw):
        x = cls.from_fill_fn(lambda shape: np.full(shape, np.nan), idx, **kw)
        # fill by sector afterwards through the public blocks mapping
        for s in list(x.blocks):
            if s in full:
                x.blocks[s] = full[s]
        return x

    judge("from_fill_fn", [], lambda: via_fill(charge=charge, **extra, **okw), exp_full)
    if ident:
        judge("from_fill_fn", ["charge"], lambda: via_fill(**extra, **okw), exp_full)
    # ---- random: validity + sector set only
    o = ctx.call(lambda: cls.random(idx, charge=charge, seed=rng.randint(0, 99), dtype=rng.choice(["float64", "complex128", "float32"]), **extra, **okw))
    ctx.evaluated()
    ctx.count("ctor", "random")
    if not o.ok:
        ctx.violation(f"random-raises-{o.excname}", repr(o.exc), spec_desc)
    else:
        errs = audit(o.value)
        if errs or set(o.value.blocks) != set(secs) or o.value.charge != charge:
            ctx.violation("random-structure", f"{errs[:2]} sectors {sorted(map(repr, o.value.blocks))}", spec_desc)
    # ---- from_dense (sorted labels) == spec
    dense = exp_sparse
    maps_list = [chargevec(ix) for ix in ref]
    maps_dict = [dict(enumerate(m)) for m in maps_list]
    fmt = rng.choice(["list", "dict"])
    maps = maps_list if fmt == "list" else maps_dict
    sargs = {"symmetry": extra["symmetry"]} if extra else {}

    def fd(**kw):
        with warnings.catch_warnings():
            warnings.simplefilter("ignore", UserWarning)
            return cls.from_dense(dense, maps, duals, **kw)

    xd = judge("from_dense", [], lambda: fd(charge=charge, **sargs, **okw), exp_sparse)
    if ident:
        judge("from_dense", ["charge"], lambda: fd(**sargs, **okw), exp_sparse)
    if sym != "Z4" and sym not in R.USER_SYMS:
        if not (ferm and odd):
            judge("utils.from_dense", [], lambda: sr.utils.from_dense(dense, sym, maps, duals=duals, fermionic=ferm, charge=charge), exp_sparse, want_cls=gen.static_class(sr, sym, ferm))
    # ---- to_dense -> from_dense round trip
    rt_blocks = dict(blocks)
    if len(rt_blocks) >= 2 and rng.random() < 0.15:
        # blocks of several element types (narrow or wide first): the dense form must hold all
        rt_blocks, _ = gen.mix_block_dtypes(rng, rt_blocks)
        ctx.count("feature", "roundtrip-mixed-dtype-blocks")
    x0 = cls(indices=idx, charge=charge, blocks=rt_blocks, **extra, **okw)
    if ferm:
        gen.add_phases(rng, x0, rng.choice([0, 1, 2]))
    o = ctx.call(x0.to_dense)
    ctx.evaluated()
    ctx.count("roundtrip", "to_dense-from_dense")
    w = dict(spec_desc, op="to_dense")
    if not o.ok:
        ctx.violation(f"to_dense-raises-{o.excname}", repr(o.exc), w)
        return
    d0 = np.asarray(o.value)
    if d0.shape != embed(x0).shape or not np.array_equal(d0, embed(x0)):
        ctx.violation("to_dense-value", "to_dense differs from the harness densifier", w)
        return
    o = ctx.call(lambda: cls.from_dense(d0, maps, duals, charge=charge, **sargs, **okw))
    if not o.ok:
        mech = "from_dense-ignores-symmetry-argument" if kind != "static" else f"from_dense-raises-{o.excname}"
        ctx.violation(mech, f"from_dense(to_dense(x)) raised {o.exc!r}", w)
        return
    m = cmp.compare_array(o.value, ref, embed(x0), True)
    if m or o.value.charge != charge:
        ctx.violation("dense-roundtrip", f"from_dense(to_dense(x)) != x: {m}", w)
        return
    if nt:
        ctx.nontrivial(("roundtrip", kind, struct_sig(x0)))
        ctx.sample(dict(spec_desc, constructors_checked=["plain", "from_blocks", "from_fill_fn", "from_dense", "utils.from_dense", "random"]), limit=2)


def embed_blocks(blocks, ref):
    from symv.dense import offsets

    offs = [offsets(ix) for ix in ref]
    dt = np.result_type(*[b.dtype for b in blocks.values()]) if blocks else float
    out = np.zeros([t for _, t in offs], dtype=dt)
    for sec, b in blocks.items():
        sl = tuple(slice(offs[k][0][c][0], offs[k][0][c][0] + offs[k][0][c][1]) for k, c in enumerate(sec))
        out[sl] = b
    return out


def projection_case(ctx, rng, given=None):
    """from_dense on an arbitrary dense array with unsorted interleaved labels, then to_dense.
    -> the labeling used (so that a history of sibling labelings can follow it)"""
    sr = ctx.sr
    if given is not None:
        sym, ferm, labels, duals = given
        nd = len(labels)
    else:
        sym = gen.pick_sym(rng)
        ferm = rng.random() < 0.4
        nd = rng.randint(1, 3)
        labels = []
        long_axis = rng.randrange(nd) if rng.random() < 0.04 else None
        patterned = rng.random() < 0.12
        for k_ in range(nd):
            n = rng.randint(1, 5) if k_ != long_axis else rng.randint(97, 260)
            pool = rng.sample(gen.POOL[sym], rng.randint(1, min(3, len(gen.POOL[sym]))))
            if patterned and k_ != long_axis:
                # 6-14 positions labelled by a repeated motif (or sorted runs) with zero, one or
                # two point mutations / one swap: every charge sits at regularly or ALMOST
                # regularly spaced positions (what a strided read would assume)
                n = rng.randint(6, 14) if nd <= 2 else rng.randint(5, 9)
                motif = [rng.choice(pool) for _ in range(rng.randint(2, 4))]
                lab = [motif[i % len(motif)] for i in range(n)] if rng.random() < 0.75 else sorted((rng.choice(pool) for _ in range(n)), key=repr)
                allc = gen.POOL[sym]
                for _ in range(rng.choice([0, 1, 1, 2])):
                    lab[rng.randrange(n)] = rng.choice(allc)
                if rng.random() < 0.25:
                    i_, j_ = rng.randrange(n), rng.randrange(n)
                    lab[i_], lab[j_] = lab[j_], lab[i_]
                labels.append(lab)
                continue
            labels.append([rng.choice(pool) for _ in range(n)])
        if patterned:
            ctx.count("feature", "patterned-labels")
        if long_axis is not None:
            ctx.count("feature", "axis-longer-than-96")
        duals = [rng.random() < 0.5 for _ in range(nd)]
        if nd >= 2 and long_axis is None and rng.random() < 0.15:
            # two or all axes carry the SAME labelling (a local operator: every leg has the
            # physical basis), usually with different directions
            i_, j_ = rng.sample(range(nd), 2)
            labels[j_] = list(labels[i_])
            if nd == 3 and rng.random() < 0.4:
                labels[3 - i_ - j_] = list(labels[i_])
            if rng.random() < 0.7:
                duals[j_] = not duals[i_]
    shape = [len(l) for l in labels]
    spec = (sym, ferm, labels, duals)
    cplx = rng.random() < 0.3
    npr = np.random.default_rng(rng.getrandbits(60))
    D = npr.integers(1, 9, size=shape).astype(float)
    if cplx:
        D = D + 1j * npr.integers(1, 9, size=shape)
    # charge: from a random element's labels (so that something survives), or identity
    if rng.random() < 0.7:
        pos = [rng.randrange(n) for n in shape]
        charge = R.sector_charge(sym, [labels[k][p] for k, p in enumerate(pos)], duals)
    else:
        charge = R.identity(sym)
    cls, extra, kind = gen.pick_class(sr, rng, sym, ferm)
    okw = {"oddpos": 3} if (ferm and R.par(sym, charge)) else {}
    sargs = {"symmetry": extra["symmetry"]} if extra else {}
    # oracle: zero what does not conserve charge, stable-sort each axis by label
    mask = np.zeros(shape, dtype=bool)
    for pos in itertools.product(*[range(n) for n in shape]):
        if R.sector_charge(sym, [labels[k][p] for k, p in enumerate(pos)], duals) == charge:
            mask[pos] = True
    P = np.where(mask, D, 0)
    orders = [sorted(range(len(l)), key=lambda i: (l[i], i)) for l in labels]
    exp = P[np.ix_(*orders)] if nd else P
    outside_nonzero = bool(np.any(D[~mask] != 0))
    unsorted = any(l != sorted(l) for l in labels)
    fmt = rng.choice(["list", "dict", "tuple", "dict-shuffled", "ndarray"])

    def as_map(l):
        if fmt == "list":
            return l
        if fmt == "dict":
            return dict(enumerate(l))
        if fmt == "tuple":
            return tuple(l)
        if fmt == "dict-shuffled":
            items = list(enumerate(l))
            rng.shuffle(items)  # same mapping, another insertion order
            return dict(items)
        if l and not isinstance(l[0], tuple):
            return np.array(l)
        return list(l)

    maps = [as_map(l) for l in labels]
    if rng.random() < 0.7:
        # equal labellings handed over as ONE object (index_maps=[m, m, ...])
        for j_ in range(1, nd):
            for i_ in range(j_):
                if labels[i_] == labels[j_] and maps[j_] is not maps[i_]:
                    maps[j_] = maps[i_]
                    ctx.count("feature", "one-map-object-on-several-axes")
                    if bool(duals[i_]) != bool(duals[j_]):
                        ctx.count("feature", "one-map-object-on-axes-of-different-direction")
                    break
    ctx.count("labels-form", fmt)
    inv = rng.choice(["ignore", "warn", "raise"])
    w = {"symmetry": sym, "class": cls.__name__, "labels": [list(map(repr, l)) for l in labels], "duals": duals, "charge": repr(charge), "dense": repr(D.tolist()), "invalid_sectors": inv}
    ctx.count("kind", kind)

    dform = rng.choice(["bool-list", "bool-list", "int-list", "tuple", "ndarray"])
    duals_arg = {"bool-list": list(duals), "int-list": [int(d_) for d_ in duals], "tuple": tuple(duals), "ndarray": np.array(duals, dtype=bool)}[dform]
    ctx.count("duals-form", dform)

    def build():
        with warnings.catch_warnings():
            warnings.simplefilter("ignore", UserWarning)
            return cls.from_dense(D, maps, duals_arg, charge=charge, invalid_sectors=inv, **sargs, **okw)

    o = ctx.call(build)
    ctx.evaluated()
    ctx.count("ctor", "from_dense")
    ctx.count("roundtrip", "projection")
    if not o.ok:
        if inv == "raise" and outside_nonzero and isinstance(o.exc, ValueError):
            ctx.count("refusal", "invalid_sectors=raise")
            return spec
        mech = "from_dense-ignores-symmetry-argument" if kind != "static" else f"from_dense-raises-{o.excname}"
        ctx.violation(mech, f"from_dense raised {o.exc!r}", w)
        return spec
    if inv == "raise" and outside_nonzero:
        ctx.violation("invalid_sectors-raise-ignored", "non-zero elements outside the valid sectors were accepted with invalid_sectors='raise'", w)
        return spec
    x = o.value
    errs = audit(x)
    if errs:
        ctx.violation("from_dense-invalid-array", str(errs[:2]), w)
        return spec
    want_tables = [{c: l.count(c) for c in sorted(set(l))} for l in labels]
    if [dict(ix.chargemap) for ix in x.indices] != want_tables or [bool(ix.dual) for ix in x.indices] != [bool(d) for d in duals] or x.charge != charge:
        ctx.violation("from_dense-structure", f"tables {[dict(ix.chargemap) for ix in x.indices]} / directions / charge differ from the labeling", w)
        return spec
    if not np.array_equal(embed(x), exp):
        ctx.violation("from_dense-projection", "blocks are not the projection of the dense array onto the charge-conserving sectors, sorted by charge", w)
        return spec
    o2 = ctx.call(x.to_dense)
    ctx.evaluated()
    if not o2.ok:
        ctx.violation(f"to_dense-raises-{o2.excname}", repr(o2.exc), w)
        return spec
    if np.asarray(o2.value).shape != exp.shape or not np.array_equal(np.asarray(o2.value), exp):
        ctx.violation("to_dense-projection", "to_dense(from_dense(d)) is not the sorted projection of d", w)
        return spec
    if nd >= 2 and unsorted and outside_nonzero and np.any(exp != 0):
        ctx.nontrivial(("proj", kind, sym, tuple(map(tuple, labels)), tuple(duals), repr(charge)))
        ctx.sample({k: w[k] for k in ("symmetry", "class", "labels", "duals", "charge", "invalid_sectors")}, limit=2)
    return spec


HASH_TWINS = {-1: -2, -2: -1}


def sibling_labelings(rng, sym, labels):
    """Labelings of the same shape that differ from `labels` as little as possible, including
    ones whose Python hash() is identical (hash(-1) == hash(-2))."""
    out = []

    def tw(c):
        if isinstance(c, tuple):
            return tuple(HASH_TWINS.get(v, v) for v in c)
        return HASH_TWINS.get(c, c)

    valid = (lambda c: True) if sym in ("U1", "U1U1", "BoseFermi") else (lambda c: False)
    # (a) -1 <-> -2 at every / at one position
    if sym in ("U1", "U1U1", "BoseFermi"):
        l2 = [[tw(c) for c in l] for l in labels]
        if l2 != labels:
            out.append(("hash-twin-all", l2))
        pos = [(k, i) for k, l in enumerate(labels) for i, c in enumerate(l) if tw(c) != c]
        if pos:
            k, i = rng.choice(pos)
            l3 = [list(l) for l in labels]
            l3[k][i] = tw(l3[k][i])
            out.append(("hash-twin-one", l3))
    # (b) one position gets another charge
    k = rng.randrange(len(labels)) if labels else None
    if k is not None and labels[k]:
        i = rng.randrange(len(labels[k]))
        l4 = [list(l) for l in labels]
        l4[k][i] = rng.choice([c for c in gen.POOL[sym] if c != l4[k][i]])
        out.append(("one-label", l4))
        # (c) two positions of one axis swapped
        if len(labels[k]) >= 2:
            i, j = rng.sample(range(len(labels[k])), 2)
            l5 = [list(l) for l in labels]
            l5[k][i], l5[k][j] = l5[k][j], l5[k][i]
            out.append(("swapped", l5))
    out.append(("same", [list(l) for l in labels]))
    return out


def history_case(ctx, rng):
    """Consecutive conversions with near-identical labelings: what an earlier conversion did
    must not leak into the next one."""
    sym = rng.choice(["U1", "U1", "U1U1", "U1U1", "Z2", "Z4", "Z2Z2"])
    ferm = rng.random() < 0.3
    nd = rng.randint(1, 3)
    labels = []
    for _ in range(nd):
        n = rng.randint(1, 5)
        pool = [c for c in gen.POOL[sym]]
        if sym == "U1":
            pool = rng.choice([[-1, -2, 0], [-1, -2], [-2, -1, 1]])
        elif sym == "U1U1":
            pool = rng.choice([[(-1, 0), (-2, 0), (0, 0)], [(0, -1), (0, -2), (-1, -1), (-2, -2)], [(-1, 1), (-2, 1), (0, 1)]])
        else:
            pool = rng.sample(pool, rng.randint(1, min(3, len(pool))))
        labels.append([rng.choice(pool) for _ in range(n)])
    duals = [rng.random() < 0.5 for _ in range(nd)]
    sibs = sibling_labelings(rng, sym, labels)
    rng.shuffle(sibs)
    seq = [("base", labels)] + sibs[: rng.randint(1, 3)]
    if rng.random() < 0.5:
        seq.append(("base-again", labels))
    for tag, lab in seq:
        projection_case(ctx, rng, (sym, ferm, lab, duals))
        ctx.count("history", tag)


def no_sector_case(ctx, rng):
    """A total charge that no combination of the indices' charges conserves: every constructor
    must give the zero tensor (no stored block), whatever the index sizes."""
    sr = ctx.sr
    sym = gen.pick_sym(rng)
    ferm = rng.random() < 0.4
    nd = rng.randint(1, 4)
    if rng.random() < 0.5:
        idx = [sr.BlockIndex({rng.choice(gen.POOL[sym]): 1}, dual=rng.random() < 0.5) for _ in range(nd)]
        ctx.count("feature", "all-axes-of-size-one")
    else:
        idx = [gen.rand_index(sr, rng, sym, maxc=2, maxd=2) for _ in range(nd)]
    reach = {R.sector_charge(sym, sec, [ix.dual for ix in idx]) for sec in itertools.product(*[list(ix.chargemap) for ix in idx])}
    cands = [c for c in gen.POOL[sym] if c not in reach]
    if not cands:
        return
    charge = rng.choice(cands)
    cls, extra, kind = gen.pick_class(sr, rng, sym, ferm)
    okw = {"oddpos": 3} if (ferm and R.par(sym, charge)) else {}
    wit = {"symmetry": sym, "class": cls.__name__, "indices": [dict(ix.chargemap) for ix in idx], "duals": [bool(ix.dual) for ix in idx], "charge": repr(charge)}
    builders = {
        "from_fill_fn": lambda: cls.from_fill_fn(lambda shape: np.ones(shape), idx, charge, **extra, **okw),
        "random": lambda: cls.random(idx, charge=charge, seed=3, **extra, **okw),
        "plain": lambda: cls(indices=idx, charge=charge, blocks={}, **extra, **okw),
    }
    for name, fn in builders.items():
        o = ctx.call(fn)
        ctx.evaluated()
        ctx.count("ctor", name + ":no-valid-sector")
        if not o.ok:
            if o.refusal:
                ctx.count("refusal", f"{name}:no-valid-sector")
            else:
                ctx.violation(f"{name}-raises-{o.excname}", f"no sector conserves the charge: {o.exc!r}", wit)
            continue
        if o.value.blocks:
            ctx.violation("block-in-a-sector-that-does-not-conserve-the-charge", f"{name} with a total charge no sector conserves stored blocks {list(o.value.blocks)}", wit)
            return
    ctx.nontrivial(("no-sector", sym, kind, tuple(tuple(ix.chargemap) for ix in idx), repr(charge)))


def run(ctx):
    for _, rng in ctx.cases("spec", ctx.budget(70000, 1400000)):
        ctx.run_case(spec_case, ctx, rng)
    for _, rng in ctx.cases("projection", ctx.budget(150000, 3000000)):
        ctx.run_case(projection_case, ctx, rng)
    for _, rng in ctx.cases("no-sector", ctx.budget(6000, 120000)):
        ctx.run_case(no_sector_case, ctx, rng)
    for _, rng in ctx.cases("history", ctx.budget(12000, 250000)):
        ctx.run_case(history_case, ctx, rng)
