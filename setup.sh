#!/bin/sh
# Offline setup: nothing is installed; byte-compile and self-test the oracles.
cd "$(dirname "$0")" || exit 1
PYTHONPATH="$PWD" /venv/bin/python -m symv.selftest
