#!/venv/bin/python
"""Development aid: which lines of the library did the checks execute?
  SYMV_LINECOV=/tmp/lc SYMV_NO_EVIDENCE=1 SYMV_QUICK_SCALE=0.1 ./vcheck all ; tools/linecov.py /tmp/lc
Lists functions never entered and the unexecuted lines of partially executed ones."""
import ast, glob, json, os, sys

covdir = sys.argv[1]
repo = os.environ.get("SYMV_REPO", "/repo")
hits = {}
for f in glob.glob(os.path.join(covdir, "*.json")):
    for fn, line in json.load(open(f)):
        hits.setdefault(fn, set()).add(line)


def code_lines(code, out):
    for _, _, ln in code.co_lines():
        if ln is not None:
            out.add(ln)
    for c in code.co_consts:
        if hasattr(c, "co_lines"):
            code_lines(c, out)


tot_exec = tot_hit = 0
for fn in sorted(os.listdir(os.path.join(repo, "symmray"))):
    if not fn.endswith(".py"):
        continue
    path = os.path.join(repo, "symmray", fn)
    src = open(path).read()
    tree = ast.parse(src)
    allcode = set()
    code_lines(compile(src, path, "exec"), allcode)
    h = hits.get(fn, set())
    funcs = []

    def walk(node, prefix):
        for ch in ast.iter_child_nodes(node):
            if isinstance(ch, (ast.FunctionDef, ast.AsyncFunctionDef)):
                funcs.append((prefix + ch.name, ch))
                walk(ch, prefix + ch.name + ".")
            elif isinstance(ch, ast.ClassDef):
                walk(ch, prefix + ch.name + ".")
            else:
                walk(ch, prefix)

    walk(tree, "")
    print(f"== {fn}: {len(h & allcode)}/{len(allcode)} lines")
    tot_exec += len(allcode)
    tot_hit += len(h & allcode)
    for name, node in funcs:
        body = set()
        for st in node.body:
            for n in ast.walk(st):
                if hasattr(n, "lineno"):
                    body.add(n.lineno)
        # skip docstring lines
        body &= allcode
        if not body:
            continue
        miss = sorted(body - h)
        if len(miss) == len(body):
            print(f"   NEVER  {name} (line {node.lineno})")
        elif miss and "-v" in sys.argv:
            print(f"   part   {name}: missing {miss[:30]}")
print(f"TOTAL {tot_hit}/{tot_exec}")
