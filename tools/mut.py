#!/venv/bin/python
"""Mutation self-test helper.
usage: tools/mut.py [--tests] [--patch file.diff | --sub FILE OLD NEW]... -- C05 C06 ...
Copies /repo/symmray (+tests) to a scratch dir under /tmp, applies the change, runs the named
checks (quick tier) with SYMV_REPO pointing at the copy, prints exit codes, removes the copy.
Evidence files are NOT touched (checks run with only-in-memory evidence: SYMV_NO_EVIDENCE=1)."""
import os
import shutil
import subprocess
import sys
import tempfile

args = sys.argv[1:]
run_tests = False
subs = []
patches = []
checks = []
i = 0
while i < len(args):
    if args[i] == "--tests":
        run_tests = True
        i += 1
    elif args[i] == "--sub":
        subs.append(args[i + 1 : i + 4])
        i += 4
    elif args[i] == "--patch":
        patches.append(os.path.abspath(args[i + 1]))
        i += 2
    elif args[i] == "--":
        checks = args[i + 1 :]
        break
    else:
        raise SystemExit(f"bad arg {args[i]}")
d = tempfile.mkdtemp(prefix="symv_mut_", dir="/tmp")
try:
    shutil.copytree("/repo/symmray", os.path.join(d, "symmray"), ignore=shutil.ignore_patterns("__pycache__"))
    shutil.copytree("/repo/tests", os.path.join(d, "tests"), ignore=shutil.ignore_patterns("__pycache__"))
    shutil.copy("/repo/pyproject.toml", d)
    for f, old, new in subs:
        p = os.path.join(d, f)
        s = open(p).read()
        if s.count(old) < 1:
            raise SystemExit(f"pattern not found in {f}: {old!r}")
        open(p, "w").write(s.replace(old, new, 1))
    for pf in patches:
        subprocess.run(["patch", "-p1", "-s", "-d", d, "-i", pf], check=True)
    if run_tests:
        r = subprocess.run("/venv/bin/python -m pytest -q -p no:cacheprovider -n 8 -x tests 2>&1 | tail -1", shell=True, cwd=d, capture_output=True, text=True, env={**os.environ, "PYTHONPATH": d})
        print("repo tests:", r.stdout.strip())
    env = {**os.environ, "SYMV_REPO": d, "SYMV_NO_EVIDENCE": "1"}
    for c in checks:
        r = subprocess.run(["/verif/vcheck", c], capture_output=True, text=True, env=env)
        lines = [l for l in r.stdout.splitlines() if l.startswith(("VIOLATION", "INCONCLUSIVE", "   mechanism", "KNOWN"))]
        print(f"{c}: exit={r.returncode}", "|", " ".join(l.strip()[:160] for l in lines[:4]))
finally:
    shutil.rmtree(d, ignore_errors=True)
