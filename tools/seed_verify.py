#!/venv/bin/python
"""Verify a seeded breaking change and (optionally) file it under /verif/seeded/.

usage: tools/seed_verify.py <dir with patch.diff + demo.py> <property id> [--checks C05,C06] [--keep NAME] [--tier quick]

Steps (all in a scratch copy of /repo's working tree under /tmp, removed afterwards):
  1. demo on the clean copy            -> must exit 0
  2. apply patch.diff                  -> must apply
  3. demo on the patched copy          -> must exit non-zero
  4. repository test suite on the copy -> must pass (1213 passed)
  5. the named /verif checks with SYMV_REPO=<copy> (no evidence written) -> exit codes
With --keep the directory is copied to /verif/seeded/NAME/ with a meta.json.
"""
import json
import os
import shutil
import subprocess
import sys
import tempfile
import time

args = sys.argv[1:]
src = os.path.abspath(args[0])
pid = args[1]
checks = [pid]
keep = None
tier = "quick"
i = 2
while i < len(args):
    if args[i] == "--checks":
        checks = args[i + 1].split(",")
        i += 2
    elif args[i] == "--keep":
        keep = args[i + 1]
        i += 2
    elif args[i] == "--tier":
        tier = args[i + 1]
        i += 2
    else:
        raise SystemExit(f"bad arg {args[i]}")

d = tempfile.mkdtemp(prefix="symv_seed_", dir="/tmp")
res = {"property": pid, "source": src}
try:
    for sub in ("symmray", "tests"):
        shutil.copytree(os.path.join("/repo", sub), os.path.join(d, sub), ignore=shutil.ignore_patterns("__pycache__"))
    shutil.copy("/repo/pyproject.toml", d)
    env = {**os.environ, "PYTHONPATH": d, "PYTHONDONTWRITEBYTECODE": "1"}
    demo = os.path.join(src, "demo.py")

    def run_demo():
        p = subprocess.run(["/venv/bin/python", demo], cwd=d, env=env, capture_output=True, text=True, timeout=600)
        return p.returncode, (p.stdout + p.stderr)[-600:]

    res["demo_clean"] = run_demo()
    p = subprocess.run(["patch", "-p1", "-s", "-d", d, "-i", os.path.join(src, "patch.diff")], capture_output=True, text=True)
    res["patch_applies"] = p.returncode == 0
    if p.returncode != 0:
        res["patch_error"] = (p.stdout + p.stderr)[-400:]
    else:
        res["demo_patched"] = run_demo()
        t = subprocess.run("/venv/bin/python -m pytest -q -p no:cacheprovider -n 8 tests 2>&1 | tail -1", shell=True, cwd=d, env=env, capture_output=True, text=True)
        res["repo_tests_patched"] = t.stdout.strip()
        res["checks"] = {}
        for c in checks:
            t0 = time.time()
            r = subprocess.run(["/verif/vcheck", c, "--tier", tier], capture_output=True, text=True, env={**os.environ, "SYMV_REPO": d, "SYMV_NO_EVIDENCE": "1"})
            lines = [l.strip() for l in r.stdout.splitlines() if l.startswith(("VIOLATION", "   mechanism", "INCONCLUSIVE"))]
            mechs = sorted({l.split("mechanism=")[1].split(":")[0] + ":" + l.split("mechanism=")[1].split(":")[1][:60] if l.count(":") > 1 else l for l in lines if "mechanism=" in l})[:4]
            res["checks"][c] = {"exit": r.returncode, "wall_s": round(time.time() - t0, 1), "first": mechs}
    ok = res.get("patch_applies") and res["demo_clean"][0] == 0 and res.get("demo_patched", (0,))[0] != 0 and "1213 passed" in res.get("repo_tests_patched", "")
    res["valid_seed"] = bool(ok)
    res["caught_by"] = [c for c, v in res.get("checks", {}).items() if v["exit"] == 1]
finally:
    shutil.rmtree(d, ignore_errors=True)
print(json.dumps(res, indent=1))
if keep and res.get("valid_seed"):
    dst = os.path.join("/verif/seeded", keep)
    os.makedirs(dst, exist_ok=True)
    for f in ("patch.diff", "demo.py", "notes.md"):
        if os.path.exists(os.path.join(src, f)):
            shutil.copy(os.path.join(src, f), dst)
    meta = {
        "property": pid,
        "breaks": open(os.path.join(src, "notes.md")).read()[:1500] if os.path.exists(os.path.join(src, "notes.md")) else "",
        "confirmed": {
            "demo_on_clean_tree_exit": res["demo_clean"][0],
            "demo_on_patched_tree_exit": res["demo_patched"][0],
            "repository_tests_with_patch": res["repo_tests_patched"],
            "what_i_ran": "tools/seed_verify.py (scratch copy of /repo's working tree under /tmp; demo before/after; pytest -n 8 tests; ./vcheck <id> --tier %s with SYMV_REPO pointing at the patched copy)" % tier,
        },
        "checks": res["checks"],
        "caught_by": res["caught_by"],
    }
    json.dump(meta, open(os.path.join(dst, "meta.json"), "w"), indent=1)
    print("kept as", dst)
