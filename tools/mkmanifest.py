#!/venv/bin/python
"""Regenerate MANIFEST.json from the check modules present in checks/ (run from /verif)."""
import importlib
import json
import os
import sys

HERE = os.path.dirname(os.path.dirname(os.path.abspath(__file__)))
sys.path.insert(0, HERE)
props = [json.loads(l) for l in open(os.path.join(HERE, "properties.jsonl"))]
checks = []
na = []
for p in props:
    pid = p["id"]
    if not os.path.exists(os.path.join(HERE, "checks", pid.lower() + ".py")):
        na.append({"property_id": pid, "reason": "check not built yet (work in progress; see DESIGN.md section 3 for the planned monitor)"})
        continue
    m = importlib.import_module("checks." + pid.lower()).META
    checks.append(
        {
            "property_id": pid,
            "quick_cmd": f"./vcheck {pid} --tier quick",
            "thorough_cmd": f"./vcheck {pid} --tier thorough",
            "evidence_file": f"/verif/evidence/{pid}.json",
            "replay_cmd_template": "./vcheck replay {path}",
            "engine": "symv",
            "level_claimed": {
                "category": m.get("level", "exploration"),
                "text": m.get("level_text", "held on the monitored executions reported in the evidence file; see rule"),
                "design_ref": f"DESIGN.md section 3 ({pid})",
            },
            "level_note": m.get("level_note", "Trusted base: numpy, the harness oracles in symv/ (RefSym arithmetic, densifier, graded model); only numpy backend; only inputs the generators reach."),
            "technique": m.get("technique", "runtime monitoring: boundary oracle over generated executions"),
        }
    )
man = {
    "version": 1,
    "setup_cmd": "./setup.sh",
    "hooks": {
        "guard": "SYMMRAY_VERIF",
        "enable": "no in-repository hooks: monitors attach from the harness (client-boundary facade, monkeypatched internal hooks, sys.monitoring); the checks import /repo's working tree directly",
        "baseline_off_cmd": "cd /repo && /venv/bin/python -m pytest -ra -q -p no:cacheprovider --timeout=900 --continue-on-collection-errors",
        "source_commits": [],
        "add_only": True,
    },
    "engines": [
        {
            "name": "symv",
            "path": "/verif/symv",
            "serves_properties": [c["property_id"] for c in checks],
            "kind_free_text": "runtime monitoring harness: seeded hostile workloads driven through a client-boundary facade in worker subprocesses; independent oracles (RefSym, densifier, graded-tensor model, Fock model, numpy.linalg); three-valued verdicts; anchor reach via sys.monitoring",
        }
    ],
    "checks": checks,
    "not_applicable": na,
    "notes": "Verdicts: exit 0 held / 1 violation / 2 inconclusive (a deciding monitor saw too little). Known findings in KNOWN_FINDINGS.txt. VERIF_SEED and VERIF_TIER honoured.",
}
json.dump(man, open(os.path.join(HERE, "MANIFEST.json"), "w"), indent=1)
print("checks:", [c["property_id"] for c in checks], "not_applicable:", [n["property_id"] for n in na])
