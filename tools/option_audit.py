#!/venv/bin/python
"""Two cheap audits of what the checks never exercise (development aids, like tools/linecov.py):
 1. keyword options of public classes / linalg functions that no harness source passes by name;
 2. functions registered with autoray under the 'symmray' backend that no harness source calls
    through ar.do("<name>", ...)."""
import glob, inspect, os, re, sys

here = os.path.dirname(os.path.dirname(os.path.abspath(__file__)))
sys.path.insert(0, os.environ.get("SYMV_REPO", "/repo"))
from symmray import abelian_core as ac, block_core as bc, fermionic_core as fc, linalg, interface, fermionic_local_operators as flo, hamiltonians as ham, utils

src = "\n".join(open(f).read() for f in glob.glob(os.path.join(here, "checks", "*.py")) + glob.glob(os.path.join(here, "symv", "*.py")))


def report(owner, name, fn):
    try:
        sig = inspect.signature(fn)
    except Exception:
        return
    for p in sig.parameters.values():
        if p.default is not inspect._empty and p.name != "inplace":
            if re.search(r"\b%s\s*=" % re.escape(p.name), src) is None:
                print(f"option never passed by name: {owner}.{name}({p.name}={p.default!r})")


for cls in (ac.AbelianArray, fc.FermionicArray, bc.BlockVector, ac.BlockIndex):
    for name, fn in inspect.getmembers(cls, inspect.isfunction):
        if not name.startswith("_") and name in cls.__dict__:
            report(cls.__name__, name, fn)
for mod in (linalg, interface, flo, ham, utils):
    for name, fn in inspect.getmembers(mod, inspect.isfunction):
        if not name.startswith("_") and fn.__module__ == mod.__name__:
            report(mod.__name__.split(".")[-1], name, fn)
for f in glob.glob(os.path.join(os.environ.get("SYMV_REPO", "/repo"), "symmray", "*.py")):
    for m in re.finditer(r'register_function\(\s*"symmray",\s*"([^"]+)"', open(f).read()):
        nm = m.group(1)
        if re.search(r'ar\.do\(\s*"%s"' % re.escape(nm), src) is None and re.search(r'"%s"' % re.escape(nm), src) is None:
            print(f"registered dispatch never called through autoray: {nm}")
