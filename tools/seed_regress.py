#!/venv/bin/python
"""Re-run every filed seeded change against the CURRENT checks (quick tier): apply
seeded/<id>/patch.diff to a scratch copy of /repo's working tree, run the check(s) recorded in
its meta.json as catching it (SYMV_REPO=<copy>, no evidence written) and expect exit 1.
  tools/seed_regress.py [--only C05] [--names C05g,C15e] [--seed N] [--workers N] [--first-only]  -> table on stdout, exit 1 if any seed got away"""
import json, os, shutil, subprocess, sys, tempfile, time

here = os.path.dirname(os.path.dirname(os.path.abspath(__file__)))
args = sys.argv[1:]
only = args[args.index("--only") + 1] if "--only" in args else None
workers = args[args.index("--workers") + 1] if "--workers" in args else None
first_only = "--first-only" in args
seed = args[args.index("--seed") + 1] if "--seed" in args else None
names = args[args.index("--names") + 1].split(",") if "--names" in args else None
bad = 0
for d in sorted(os.listdir(os.path.join(here, "seeded"))):
    sd = os.path.join(here, "seeded", d)
    mp = os.path.join(sd, "meta.json")
    if not os.path.isfile(mp) or (only and not d.startswith(only)) or (names and d not in names):
        continue
    meta = json.load(open(mp))
    prop = meta.get("property", d[:3])
    caught = meta.get("caught_by_all") or meta.get("caught_by") or [prop]
    checks = ([prop] if prop in caught else []) + [c for c in caught if c != prop]
    if first_only:
        checks = checks[:1]
    tmp = tempfile.mkdtemp(prefix="symv_regress_", dir="/tmp")
    try:
        for sub in ("symmray", "tests"):
            shutil.copytree(os.path.join("/repo", sub), os.path.join(tmp, sub), ignore=shutil.ignore_patterns("__pycache__"))
        p = subprocess.run(["patch", "-p1", "-s", "-d", tmp, "-i", os.path.join(sd, "patch.diff")], capture_output=True, text=True)
        if p.returncode != 0:
            print(f"{d}\tPATCH-DOES-NOT-APPLY\t{(p.stdout + p.stderr)[-120:]!r}", flush=True)
            bad += 1
            continue
        out = []
        for c in checks:
            t0 = time.time()
            cmd = [os.path.join(here, "vcheck"), c] + (["--workers", workers] if workers else []) + (["--seed", seed] if seed else [])
            r = subprocess.run(cmd, capture_output=True, text=True, env={**os.environ, "SYMV_REPO": tmp, "SYMV_NO_EVIDENCE": "1"})
            out.append(f"{c}:exit{r.returncode}({time.time() - t0:.0f}s)")
            if r.returncode == 1:
                break
        ok = any(":exit1" in o for o in out)
        bad += not ok
        print(f"{d}\t{'caught' if ok else 'NOT-CAUGHT'}\t{' '.join(out)}", flush=True)
    finally:
        shutil.rmtree(tmp, ignore_errors=True)
print(f"# seeds that got away: {bad}")
sys.exit(1 if bad else 0)
