#!/venv/bin/python
"""Regenerate the table rows of seeded/README.md from the meta.json files (history column is
taken from meta['history'] when present, otherwise the existing README row is kept)."""
import json, os, re, sys

here = os.path.dirname(os.path.dirname(os.path.abspath(__file__)))
sd = os.path.join(here, "seeded")
readme = os.path.join(sd, "README.md")
text = open(readme).read()
head, _, table = text.partition("| seed | property |")
old = {}
for line in table.splitlines():
    m = re.match(r"\| (C\d\d[a-z]) \| (C\d\d) \| ([^|]*) \| (.*) \|$", line)
    if m:
        old[m.group(1)] = (m.group(3).strip(), m.group(4).strip())
rows = []
for d in sorted(os.listdir(sd)):
    mp = os.path.join(sd, d, "meta.json")
    if not os.path.isfile(mp):
        continue
    meta = json.load(open(mp))
    caught = meta.get("caught_by_all") or meta.get("caught_by") or []
    prop = meta.get("property", d[:3])
    own = [c for c in caught if c == prop]
    caught = own + [c for c in caught if c != prop]
    hist = meta.get("history")
    if hist is None and d in old:
        hist = old[d][1]
        if not caught:
            caught = old[d][0].split(",")
    rows.append(f"| {d} | {prop} | {','.join(caught)} | {hist or ''} |")
out = head + "| seed | property | quick checks that fire | history |\n|---|---|---|---|\n" + "\n".join(rows) + "\n"
open(readme, "w").write(out)
print(len(rows), "rows")
